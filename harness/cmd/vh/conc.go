package main

// vh conc — C18: separately created instances driven from different goroutines, under the race detector.
// The parent (`vh conc`) first computes every workload's result sequentially in-process, then re-executes the race-enabled
// build of this program (`vhrace conc-child`) which runs all workloads concurrently on fresh instances, several
// rounds with different goroutine counts, and prints one result line per workload instance. A data race reported by the
// runtime, a crash, or a result that differs from the sequential one is a violation.

import (
	"bufio"
	"bytes"
	"fmt"
	"os"
	"os/exec"
	"path/filepath"
	"sort"
	"strings"
	"sync"

	snes "github.com/alttpo/snes"
	"github.com/alttpo/snes/asm"
	"github.com/alttpo/snes/color15"
	"github.com/alttpo/snes/emulator"
	"github.com/alttpo/snes/emulator/bus"
	"github.com/alttpo/snes/emulator/cpu65c816"
	"github.com/alttpo/snes/emulator/cpualt"
	"github.com/alttpo/snes/mapping/exhirom"
	"github.com/alttpo/snes/mapping/hirom"
	"github.com/alttpo/snes/mapping/lorom"
	"github.com/alttpo/snes/mapping/sa1rom"

	"verifharness/internal/cpuh"
	"verifharness/internal/prng"
	"verifharness/internal/report"
)

func init() {
	components["conc"] = func(string) { runConc() }
	components["conc-child"] = func(string) { runConcChild() }
}

type plainMem struct{ m *cpuh.Mem }

func (d plainMem) Read(a uint32) byte     { return d.m.Read(a) }
func (d plainMem) Write(a uint32, v byte) { d.m.Write(a, v) }
func (d plainMem) Shutdown()              {}
func (d plainMem) Size() uint32           { return 1 << 24 }
func (d plainMem) Clear()                 {}
func (d plainMem) Dump(uint32) []byte     { return nil }

// concTogether: set in the concurrent child process. Workloads that own several related objects (emitter-clones) drive all of them at
// the same time, one goroutine each, when it is set, and one at a time on separate families when it is not (the sequential reference).
var concTogether bool

// every workload builds its own instances from scratch and returns a canonical result string
var workloads = map[string]func(seed uint64) string{
	"cpu-primary": func(seed uint64) string {
		r := prng.New(seed)
		c := genCPUCase(r.Fork(), -1, true)
		mem := cpuh.NewMem(c.seed)
		b, _ := bus.New()
		if err := b.Attach(plainMem{mem}, "all", 0, 0xFFFFFF); err != nil {
			return "attach: " + err.Error()
		}
		cpu, _ := cpu65c816.New(b)
		p := &cpuh.Primary{CPU: cpu, Mem: mem}
		p.Set(c.regs)
		var trace []byte
		for i := 0; i < 150; i++ {
			trace = cpu.DisassembleCurrentPC(trace[:0]) // uses the package-level `spaces` and opcode tables
			if _, _, pn := p.Step(); pn != "" {
				return "panic " + pn
			}
		}
		return p.Get().Canon() + "|" + mem.WritesCanon() + "|" + string(trace)
	},
	"cpu-alt": func(seed uint64) string {
		r := prng.New(seed)
		c := genCPUCase(r.Fork(), -1, true)
		mem := cpuh.NewMem(c.seed)
		cpu := &cpualt.CPU{}
		cpu.Init()
		cpu.Bus.AttachReader(0, 0xFFFFFF, func(a uint32) uint8 { return mem.Read(a) })
		cpu.Bus.AttachWriter(0, 0xFFFFFF, func(a uint32, v uint8) { mem.Write(a, v) })
		p := &cpuh.Alt{CPU: cpu, Mem: mem}
		p.Set(c.regs)
		last := ""
		for i := 0; i < 150; i++ {
			last = cpu.Disassemble(cpu.PC)
			if _, _, pn := p.Step(); pn != "" {
				return "panic " + pn
			}
		}
		return p.Get().Canon() + "|" + mem.WritesCanon() + "|" + last
	},
	// a cpualt CPU whose bus is only partly attached: reads of unattached addresses are "open bus" reads of this CPU's own bus
	"cpu-alt-openbus": func(seed uint64) string {
		r := prng.New(seed)
		hh, kk := byte(0x21+r.N(0x30)), byte(0x40+r.N(0x30))
		rom := make([]byte, 0x8000)
		wram := make([]byte, 0x2000)
		copy(rom, []byte{0xE2, 0x30, 0xAD, 0x00, hh, 0x85, 0x10, 0xAF, 0x00, 0x00, kk, 0x85, 0x11, 0xEE, 0x12, 0x00, 0x80, 0xF0})
		rom[0x7FFC], rom[0x7FFD] = 0x00, 0x80
		cpu := &cpualt.CPU{}
		cpu.Init()
		cpu.Bus.AttachReader(0x008000, 0x00FFFF, func(a uint32) uint8 { return rom[a-0x8000] })
		cpu.Bus.AttachWriter(0x008000, 0x00FFFF, func(a uint32, v uint8) {})
		cpu.Bus.AttachReader(0x000000, 0x001FFF, func(a uint32) uint8 { return wram[a&0x1FFF] })
		cpu.Bus.AttachWriter(0x000000, 0x001FFF, func(a uint32, v uint8) { wram[a&0x1FFF] = v })
		cpu.Reset()
		var seen []byte
		for i := 0; i < 120; i++ {
			cpu.Step()
			if i%6 == 5 {
				seen = append(seen, wram[0x10], wram[0x11])
			}
		}
		return fmt.Sprintf("%x pc=%04x a=%02x n=%02x", seen, cpu.PC, cpu.RAl, wram[0x12])
	},
	"system": func(seed uint64) string {
		r := prng.New(seed)
		s := &emulator.System{}
		if err := s.CreateEmulator(); err != nil {
			return "create: " + err.Error()
		}
		// a small program in ROM bank 0: a loop that stores to WRAM, writes and reads back a hardware register, and WDMs
		prog := []byte{0x18, 0xFB, 0xC2, 0x30, 0xA2, byte(3 + r.N(9)), 0x00,
			0xA9, byte(r.N(256)), byte(r.N(256)), 0x8D, 0x00, 0x21, 0x8D, 0x00, 0x10, 0xAD, 0x00, 0x21, 0x8D, 0x02, 0x10,
			0x42, 0x07, 0xCA, 0xD0, 0xEC, 0xDB}
		copy(s.ROM[0:], prog)
		s.CPU.Reset()
		s.SetPC(0x008000)
		w := &countingWriter{}
		s.Logger = w
		var wdm []byte
		s.CPU.OnWDM = func(v byte) { wdm = append(wdm, v) }
		ok := s.RunUntil(0x00801B, 5000)
		return fmt.Sprintf("%v pc=%06x a=%04x x=%04x cyc=%d wram=%02x%02x hw=%02x%02x wdm=%x log=%d/%d", ok, s.GetPC(), s.CPU.RA, s.CPU.RX, s.CPU.AllCycles, s.WRAM[0x1000], s.WRAM[0x1001], s.WRAM[0x1002], s.WRAM[0x1003], wdm, w.writes, w.bytes)
	},
	"emitter": func(seed uint64) string {
		r := prng.New(seed)
		buf := make([]byte, 0x200)
		e := asm.NewEmitter(buf, true)
		e.SetBase(0x008000 + uint32(r.N(0x100)))
		e.REP(0x30)
		e.Label("top")
		for i := 0; i < 20; i++ {
			switch r.N(5) {
			case 0:
				e.LDA_imm16_w(r.U16())
			case 1:
				e.STA_abs(r.U16())
			case 2:
				e.DEX()
			case 3:
				e.EmitBytes([]byte{r.U8(), r.U8(), r.U8()})
			default:
				e.NOP()
			}
		}
		e.BNE("top")
		e.BRA("end")
		e.Label("end")
		e.RTS()
		err := e.Finalize()
		var hex, txt bytes.Buffer
		e.WriteHexTo(&hex)
		e.WriteTextTo(&txt)
		return fmt.Sprintf("%v %x|%s|%s", err, e.Bytes(), hex.String(), txt.String())
	},
	// emitter-clones: one parent emitter with labels that have 1..9 unresolved references, several emitters derived from it by
	// Clone; the parent and every clone are separately owned objects and go on emitting (more references to the same labels, own
	// labels), each driven by its own goroutine. Every participant is then completed on its own (a clone is appended to a twin of the
	// parent), the labels are defined and Finalize runs. Reference (concTogether = false): only one participant of the family is
	// driven at all - "the result it produces when run alone".
	"emitter-clones": func(seed uint64) string {
		r := prng.New(seed)
		type eop struct {
			kind  int // 0 NOP, 1 branch to label, 2 JMP_abs label, 3 LDA_abs, 4 define own label + branch back to it
			label string
			arg   uint16
		}
		run := func(e *asm.Emitter, ops []eop) {
			for _, o := range ops {
				switch o.kind {
				case 0:
					e.NOP()
				case 1:
					switch o.arg % 3 {
					case 0:
						e.BEQ(o.label)
					case 1:
						e.BNE(o.label)
					default:
						e.BRA(o.label)
					}
				case 2:
					e.JMP_abs(o.label)
				case 3:
					e.LDA_abs(o.arg)
				case 4:
					e.Label(o.label)
					e.DEX()
					e.BNE(o.label)
				}
			}
		}
		base := 0x008000 + uint32(r.N(0x100))
		nl := 1 + r.N(3)
		labels := make([]string, nl)
		short := make([]bool, nl) // referenced by relative branches (otherwise by absolute jumps)
		var prefix []eop
		for li := range labels {
			labels[li] = fmt.Sprintf("l%d", li)
			short[li] = r.Bool()
			for k := 1 + r.N(9); k > 0; k-- { // 1..9 references pending at Clone time
				if short[li] {
					prefix = append(prefix, eop{kind: 1, label: labels[li], arg: r.U16()})
				} else {
					prefix = append(prefix, eop{kind: 2, label: labels[li]})
				}
			}
		}
		mkParent := func() *asm.Emitter {
			e := asm.NewEmitter(make([]byte, 0x200), true)
			e.SetBase(base)
			e.SEP(0x30)
			run(e, prefix)
			return e
		}
		np := 3 + r.N(3) // participant 0 is the parent itself, the others are clones
		progs := make([][]eop, np)
		for i := range progs {
			for k := r.N(5); k > 0; k-- {
				progs[i] = append(progs[i], eop{kind: 0})
			}
			for li := range labels {
				for k := r.N(4); k > 0; k-- {
					if short[li] {
						progs[i] = append(progs[i], eop{kind: 1, label: labels[li], arg: r.U16()})
					} else {
						progs[i] = append(progs[i], eop{kind: 2, label: labels[li]})
					}
				}
			}
			if r.Bool() {
				progs[i] = append(progs[i], eop{kind: 4, label: fmt.Sprintf("own%d", i)})
			}
		}
		complete := func(e *asm.Emitter) string {
			for _, l := range labels {
				e.Label(l)
			}
			e.RTS()
			if err := e.Finalize(); err != nil {
				return "finalize: error" // which error comes first depends on Go's map order
			}
			var txt bytes.Buffer
			e.WriteTextTo(&txt)
			return fmt.Sprintf("%x|%s", e.Bytes(), txt.String())
		}
		family := func() (parent *asm.Emitter, members []*asm.Emitter) {
			parent = mkParent()
			members = []*asm.Emitter{parent}
			for i := 1; i < np; i++ {
				members = append(members, parent.Clone(make([]byte, 0x80)))
			}
			return
		}
		finish := func(i int, m *asm.Emitter) (res string) {
			defer func() {
				if rr := recover(); rr != nil {
					res = fmt.Sprint("panic: ", rr)
				}
			}()
			if i == 0 {
				return complete(m)
			}
			twin := mkParent()
			twin.Append(m)
			return complete(twin)
		}
		out := make([]string, np)
		if concTogether {
			_, members := family()
			start := make(chan struct{})
			var wg sync.WaitGroup
			for i := range members {
				wg.Add(1)
				go func(i int) {
					defer wg.Done()
					defer func() {
						if rr := recover(); rr != nil {
							out[i] = fmt.Sprint("panic: ", rr)
						}
					}()
					<-start
					run(members[i], progs[i])
				}(i)
			}
			close(start)
			wg.Wait()
			for i, m := range members {
				if out[i] == "" {
					out[i] = finish(i, m)
				}
			}
		} else {
			for i := 0; i < np; i++ {
				_, members := family()
				func() {
					defer func() {
						if rr := recover(); rr != nil {
							out[i] = fmt.Sprint("panic: ", rr)
						}
					}()
					run(members[i], progs[i])
				}()
				if out[i] == "" {
					out[i] = finish(i, members[i])
				}
			}
		}
		return strings.Join(out, " || ")
	},
	"rom": func(seed uint64) string {
		r := prng.New(seed)
		img := make([]byte, 0x10000)
		for i := range img {
			img[i] = byte(prng.Hash(seed, uint32(i)))
		}
		rom, err := snes.NewROM("w", img)
		if err != nil {
			return "new: " + err.Error()
		}
		_ = rom.ReadHeader()
		rom.Header.CheckSum = r.U16()
		_ = rom.WriteHeader()
		rd := rom.BusReader(0x008000 + uint32(r.N(0x7F00)))
		out := make([]byte, 64)
		n, err1 := rd.Read(out)
		return fmt.Sprintf("%x %s %d %x %v", rom.Contents[0x7FB0:0x8000], snes.RegionNames[snes.Region(rom.Header.DestinationCode)], n, out[:n], err1)
	},
	"pure": func(seed uint64) string {
		r := prng.New(seed)
		var sb strings.Builder
		for i := 0; i < 4000; i++ {
			a := r.U32() & 0xFFFFFF
			p1, e1 := lorom.BusAddressToPak(a)
			p2, e2 := hirom.BusAddressToPak(a)
			p3, e3 := exhirom.BusAddressToPak(a)
			p4, e4 := sa1rom.BusAddressToPak(a)
			b1, f1 := lorom.PakAddressToBus(a)
			c := color15.Color(r.U16())
			fmt.Fprintf(&sb, "%x%v%x%v%x%v%x%v%x%v%x%x", p1, e1 != nil, p2, e2 != nil, p3, e3 != nil, p4, e4 != nil, b1, f1 != nil, c.MulDiv(uint8(1+r.N(40)), uint8(1+r.N(40))), c.Luminosity())
		}
		return fmt.Sprint(prng.Hash(seed, uint32(len(sb.String()))), len(sb.String()), sb.String()[:64])
	},
}

func workloadNames() []string {
	var ns []string
	for n := range workloads {
		ns = append(ns, n)
	}
	sort.Strings(ns)
	return ns
}

func concPlan() (jobs []struct {
	name string
	seed uint64
}) {
	per := 6
	if tier == "thorough" {
		per = 40
	}
	r := prng.New(seed ^ 0xc0c)
	for _, n := range workloadNames() {
		k := per
		if n == "system" { // 33 MiB each
			k = per / 3
			if k < 2 {
				k = 2
			}
		}
		for i := 0; i < k; i++ {
			jobs = append(jobs, struct {
				name string
				seed uint64
			}{n, r.U64() & 0xFFFFFFFF})
		}
	}
	return
}

// VH_CONC_BURST=<workload>: a fresh process whose very first use of the library is `n` instances of one workload kind
// released together by a barrier — lazily initialised package state (caches filled on first use) is then initialised
// concurrently, which is the only moment such state races.
func runConcBurst(kind string) {
	n := 12
	start := make(chan struct{})
	res := make([]string, n)
	var wg sync.WaitGroup
	for i := 0; i < n; i++ {
		wg.Add(1)
		go func(i int) {
			defer wg.Done()
			defer func() {
				if r := recover(); r != nil {
					res[i] = fmt.Sprint("panic: ", r)
				}
			}()
			<-start
			res[i] = workloads[kind](uint64(1000 + i))
		}(i)
	}
	close(start)
	wg.Wait()
	w := bufio.NewWriter(os.Stdout)
	for i := range res {
		fmt.Fprintf(w, "B %s %x %q\n", kind, 1000+i, res[i])
	}
	w.Flush()
}

func runConcChild() {
	concTogether = true
	if k := os.Getenv("VH_CONC_BURST"); k != "" {
		runConcBurst(k)
		return
	}
	jobs := concPlan()
	rounds := 3
	out := make([][]string, rounds)
	for round := 0; round < rounds; round++ {
		res := make([]string, len(jobs))
		var wg sync.WaitGroup
		for i, j := range jobs {
			wg.Add(1)
			go func(i int, name string, s uint64) {
				defer wg.Done()
				defer func() {
					if r := recover(); r != nil {
						res[i] = fmt.Sprint("panic: ", r)
					}
				}()
				res[i] = workloads[name](s)
			}(i, j.name, j.seed)
		}
		wg.Wait()
		out[round] = res
	}
	w := bufio.NewWriter(os.Stdout)
	for round := range out {
		for i, j := range jobs {
			fmt.Fprintf(w, "R %d %s %x %q\n", round, j.name, j.seed, out[round][i])
		}
	}
	w.Flush()
}

func runConc() {
	rep := report.New("conc", tier, seed)
	jobs := concPlan()
	// sequential reference
	ref := make([]string, len(jobs))
	for i, j := range jobs {
		ref[i] = workloads[j.name](j.seed)
		rep.Count("workload " + j.name)
	}
	exe, _ := os.Executable()
	raceBin := filepath.Join(filepath.Dir(exe), "vhrace")
	cmd := exec.Command(raceBin, "conc-child", "-tier", tier, "-seed", fmt.Sprint(seed))
	cmd.Env = append(os.Environ(), "GORACE=halt_on_error=0 exitcode=66")
	var stdout, stderr bytes.Buffer
	cmd.Stdout, cmd.Stderr = &stdout, &stderr
	err := cmd.Run()
	in := fmt.Sprintf("%s conc-child -tier %s -seed %d", raceBin, tier, seed)
	if strings.Contains(stderr.String(), "DATA RACE") {
		txt := stderr.String()
		if len(txt) > 3000 {
			txt = txt[:3000]
		}
		rep.Add(report.Finding{Property: "C18", Kind: "violation", Clause: "the race detector reports a data race between goroutines that only use their own instances", Input: in, Detail: txt})
	} else if err != nil {
		rep.Add(report.Finding{Property: "C18", Kind: "violation", Clause: "concurrent run failed: " + err.Error(), Input: in, Detail: tailStr(stderr.String(), 2000)})
	}
	// first-use bursts: fresh race-enabled processes per workload kind (the detector keeps a bounded access history per
	// word, so a racing first use is caught with high but not full probability per process: several attempts each)
	bursts := 0
	attempts := 4
	if tier == "thorough" {
		attempts = 12
	}
	type burstRes struct {
		kind     string
		out, err string
		runErr   error
	}
	var bres []burstRes
	var bmu sync.Mutex
	var bwg sync.WaitGroup
	sem := make(chan struct{}, 8)
	for _, kind := range workloadNames() {
		for k := 0; k < attempts; k++ {
			bwg.Add(1)
			go func(kind string) {
				defer bwg.Done()
				sem <- struct{}{}
				defer func() { <-sem }()
				bc := exec.Command(raceBin, "conc-child", "-tier", tier, "-seed", fmt.Sprint(seed))
				bc.Env = append(os.Environ(), "GORACE=halt_on_error=0 exitcode=66", "VH_CONC_BURST="+kind)
				var bo, be bytes.Buffer
				bc.Stdout, bc.Stderr = &bo, &be
				e := bc.Run()
				bmu.Lock()
				bres = append(bres, burstRes{kind, bo.String(), be.String(), e})
				bmu.Unlock()
			}(kind)
		}
		rep.Count("first-use burst " + kind)
	}
	bwg.Wait()
	sort.Slice(bres, func(i, j int) bool { return bres[i].kind < bres[j].kind })
	reported := map[string]bool{}
	for _, br := range bres {
		bin := fmt.Sprintf("VH_CONC_BURST=%s %s conc-child", br.kind, raceBin)
		if strings.Contains(br.err, "DATA RACE") {
			if !reported[br.kind] {
				reported[br.kind] = true
				rep.Add(report.Finding{Property: "C18", Kind: "violation", Clause: "the race detector reports a data race when instances of kind " + br.kind + " are the first users of the library, concurrently (lazily initialised shared state)",
					Input: bin, Detail: clip(br.err, 3000)})
			}
		} else if br.runErr != nil && !reported[br.kind] {
			reported[br.kind] = true
			rep.Add(report.Finding{Property: "C18", Kind: "violation", Clause: "concurrent first-use run of " + br.kind + " failed: " + br.runErr.Error(), Input: bin, Detail: tailStr(br.err, 2000)})
		}
		for _, line := range strings.Split(br.out, "\n") {
			var name, got string
			var s uint64
			if _, e := fmt.Sscanf(line, "B %s %x %q", &name, &s, &got); e != nil {
				continue
			}
			bursts++
			if want := workloads[name](s); got != want && !reported[name+"/result"] {
				reported[name+"/result"] = true
				rep.Add(report.Finding{Property: "C18", Kind: "violation", Clause: "workload " + name + " gives a different result when it is first used concurrently",
					Input: fmt.Sprintf("%s seed %x", name, s), Expected: clip(want, 300), Actual: clip(got, 300)})
			}
		}
	}
	n := 0
	for _, line := range strings.Split(stdout.String(), "\n") {
		var round int
		var name, got string
		var s uint64
		if _, e := fmt.Sscanf(line, "R %d %s %x %q", &round, &name, &s, &got); e != nil {
			continue
		}
		idx := n % len(jobs)
		n++
		if idx < len(jobs) && (jobs[idx].name != name || jobs[idx].seed != s) {
			continue
		}
		if got != ref[idx] {
			rep.Add(report.Finding{Property: "C18", Kind: "violation", Clause: fmt.Sprintf("workload %s gives a different result when run concurrently with other instances (round %d)", name, round),
				Input: fmt.Sprintf("%s seed %x", name, s), Expected: clip(ref[idx], 300), Actual: clip(got, 300)})
		}
	}
	if n == 0 && err == nil {
		rep.Add(report.Finding{Property: "C18", Kind: "disagreement", Clause: "concurrent run produced no results", Input: in, Detail: tailStr(stderr.String(), 1000)})
	}
	rep.Evaluations = int64(n + bursts)
	rep.Distinct = int64(len(workloads))
	rep.Rule = "workloads (each builds its own instances): primary CPU + bus + disassembler 150 steps, cpualt 150 steps, a cpualt CPU on a partly attached bus reading open-bus addresses, emulator.System RunUntil with Logger and OnWDM, Emitter program with labels/Finalize/" +
		"listings, emitter families (a parent with labels that have 1..9 unresolved references, 2..4 clones; parent and clones each add references to the same labels on their own goroutine, are completed separately and finalized; reference: each participant driven alone), ROM header read/write + BusReader, stateless mapper/colour sweeps; all instances of all kinds run concurrently (one goroutine each, 3 rounds) in a -race build and are compared with the " +
		"sequential results; before that, per workload kind, a fresh -race process whose first use of the library is 12 instances of that kind released by a barrier (concurrent lazy initialisation); evaluations = concurrent workload executions compared"
	rep.Emit()
}

func clip(s string, n int) string {
	if len(s) > n {
		return s[:n] + "…"
	}
	return s
}
func tailStr(s string, n int) string {
	if len(s) > n {
		return s[len(s)-n:]
	}
	return s
}
