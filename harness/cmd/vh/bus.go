package main

import (
	"fmt"
	"strconv"
	"strings"

	"github.com/alttpo/snes/emulator/bus"
	"github.com/alttpo/snes/emulator/memory"

	"verifharness/internal/drv"
	"verifharness/internal/prng"
	"verifharness/internal/report"
)

func init() { components["bus"] = func(string) { runBus() } }

// logMem is an instrumented memory.Memory: contents are a seeded hash of (id, address); every access is logged.
type logMem struct {
	id   uint32
	log  *[]string
	size uint32
}

func (m *logMem) Read(a uint32) byte {
	*m.log = append(*m.log, fmt.Sprintf("m%x:%x", m.id, a))
	return prng.Hash(uint64(m.id), a)
}
func (m *logMem) Write(a uint32, v byte) { *m.log = append(*m.log, fmt.Sprintf("m%x:%x", m.id, a)) }
func (m *logMem) Shutdown()              {}
func (m *logMem) Size() uint32           { return m.size }
func (m *logMem) Clear()                 {}
func (m *logMem) Dump(uint32) []byte     { return nil }

// logRAM / logROM: the library's own memory.RAM / memory.ROM (embedded, so that every method they have or gain — including
// optional interfaces a bus might look for — is promoted) with address logging on Read / Write. The backing buffer starts
// `delta` bytes before the attached range (offsets that are not multiples of 16) and holds Hash(id, address), i.e. the same
// contents as logMem, so the model and the oracle need not tell them apart.
type logRAM struct {
	memory.RAM
	id  uint32
	log *[]string
}

func (m logRAM) Read(a uint32) byte {
	*m.log = append(*m.log, fmt.Sprintf("m%x:%x", m.id, a))
	return m.RAM.Read(a)
}
func (m logRAM) Write(a uint32, v byte) { *m.log = append(*m.log, fmt.Sprintf("m%x:%x", m.id, a)) }

type logROM struct {
	*memory.ROM
	id  uint32
	log *[]string
}

func (m logROM) Read(a uint32) byte {
	*m.log = append(*m.log, fmt.Sprintf("m%x:%x", m.id, a))
	return m.ROM.Read(a)
}
func (m logROM) Write(a uint32, v byte) { *m.log = append(*m.log, fmt.Sprintf("m%x:%x", m.id, a)) }

func realMemory(id, s, e uint32, log *[]string) memory.Memory {
	delta := (s >> 4) % 13
	if delta > s {
		delta = s
	}
	off := s - delta
	buf := make([]byte, e-off+1)
	for i := range buf {
		buf[i] = prng.Hash(uint64(id), off+uint32(i))
	}
	if id == 5 {
		return logRAM{memory.NewRAM(buf, off), id, log}
	}
	return logROM{memory.NewROM(buf, off), id, log}
}

type busOp struct {
	kind       byte // A R W T D   (T = EaRead24_wrap at bank s>>16, offset s&0xFFFF)
	m, s, e, n uint32
}

func (o busOp) String() string {
	switch o.kind {
	case 'A':
		return fmt.Sprintf("A %x %x %x", o.m, o.s, o.e)
	case 'R', 'W':
		return fmt.Sprintf("%c %x", o.kind, o.s)
	case 'T':
		return fmt.Sprintf("T %x %x", o.s>>16, o.s&0xFFFF)
	default:
		return fmt.Sprintf("D %x %x %x", o.s, o.e, o.n)
	}
}

// execBusOps runs a history against the real bus.Bus and renders each result in the protocol's canonical form.
var sharedBus *bus.Bus
var busDirty bool

func execBusOps(ops []busOp) []string {
	// one 16 MiB segment table is reused; every successful Attach is undone afterwards by attaching nil
	if sharedBus == nil {
		sharedBus, _ = bus.New()
	}
	b := sharedBus
	defer func() {
		if busDirty {
			sharedBus, busDirty = nil, false
			return
		}
		for _, o := range ops {
			if o.kind == 'A' && o.s%16 == 0 && (o.e+1)%16 == 0 && o.e <= 0xFFFFFF {
				func() {
					defer func() {
						if recover() != nil {
							sharedBus = nil
						}
					}()
					b.Attach(nil, "", o.s, o.e)
				}()
			}
		}
	}()
	var log []string
	return runBusOpsOn(b, ops, &log)
}

// runBusOpsOn runs the operations on the given bus and renders each result in the protocol's canonical form
func runBusOpsOn(b *bus.Bus, ops []busOp, logp *[]string) []string {
	// the memories attached below append to *logp: the caller passes the same log in every call that concerns the same memories
	out := make([]string, len(ops))
	for i, o := range ops {
		func() {
			defer func() {
				if r := recover(); r != nil {
					out[i] = "panic"
				}
			}()
			switch o.kind {
			case 'A':
				// every memory reports a size: the length of a well-formed range, otherwise (end < start, one of the degenerate argument
				// shapes) a multiple of 16 determined by the operation itself
				sz := o.e - o.s + 1
				if o.e < o.s {
					sz = 16 << ((o.m + o.s>>4 + o.e) % 9)
				}
				var mm memory.Memory = &logMem{o.m, logp, sz}
				if o.m >= 5 && o.s%16 == 0 && (o.e+1)%16 == 0 && o.e >= o.s && o.e <= 0xFFFFFF && o.e-o.s < 1<<16 {
					mm = realMemory(o.m, o.s, o.e, logp) // ids 5 and 6 are the library's own RAM / ROM devices
				} else if o.m >= 5 && o.e < o.s && o.s <= 0xFFFFFF && o.s+sz-1 <= 0xFFFFFF {
					mm = realMemory(o.m, o.s, o.s+sz-1, logp) // a real device of that size where the range would start
				}
				err := b.Attach(mm, "m", o.s, o.e)
				if err == nil && (o.s%16 != 0 || (o.e+1)%16 != 0) {
					busDirty = true // an Attach that had to be rejected was accepted: the shared table cannot be undone range by range
				}
				switch {
				case err == nil:
					out[i] = "ok"
				case strings.HasPrefix(err.Error(), "start"):
					out[i] = "es"
				default:
					out[i] = "ee"
				}
			case 'R':
				*logp = (*logp)[:0]
				v := b.EaRead(o.s)
				if len(*logp) != 1 {
					out[i] = fmt.Sprintf("log%d", len(*logp))
				} else {
					out[i] = (*logp)[0]
					// the byte returned must be the routed memory's byte
					var id, a uint32
					fmt.Sscanf((*logp)[0], "m%x:%x", &id, &a)
					if v != prng.Hash(uint64(id), a) {
						out[i] += "!value"
					}
				}
			case 'W':
				*logp = (*logp)[:0]
				b.EaWrite(o.s, 0x5A)
				if len(*logp) != 1 {
					out[i] = fmt.Sprintf("log%d", len(*logp))
				} else {
					out[i] = (*logp)[0]
				}
			case 'T':
				*logp = (*logp)[:0]
				v := b.EaRead24_wrap(byte(o.s>>16), uint16(o.s))
				if len(*logp) != 3 {
					out[i] = fmt.Sprintf("log%d", len(*logp))
				} else {
					out[i] = strings.Join(*logp, ",")
					var want uint32
					for k, l := range *logp {
						var id, a uint32
						fmt.Sscanf(l, "m%x:%x", &id, &a)
						want |= uint32(prng.Hash(uint64(id), a)) << (8 * uint(k))
					}
					if v != want {
						out[i] += "!value"
					}
				}
			case 'D':
				data := make([]byte, o.n)
				for j := range data {
					data[j] = 0xA5 ^ byte(j)
				}
				n := b.EaDump(o.s, o.e, data)
				var sb strings.Builder
				sb.WriteString(strconv.FormatUint(uint64(n), 16))
				sb.WriteByte(':')
				for _, x := range data {
					fmt.Fprintf(&sb, "%02x", x)
				}
				out[i] = sb.String()
			}
		}()
	}
	return out
}

func genBusHistory(r *prng.R, rep *report.Report) []busOp {
	var ops []busOp
	// window in which everything happens (so that ranges overlap often); sometimes at the top of the address space
	base := uint32(0)
	switch r.N(4) {
	case 1:
		base = 0xFFFC00
	case 2:
		base = uint32(r.N(1<<20)) << 4 & 0xFFFC00
	}
	span := uint32(0x400)
	// a third of the histories work on whole banks: ranges spanning several 64 KiB banks from end to end (optionally with a partial
	// bank before / after), later re-attached in part
	banked := r.N(3) == 0
	var bank0, nbanks uint32
	if banked {
		nbanks = uint32(2 + r.N(5))
		bank0 = []uint32{0, 0x100 - nbanks, uint32(r.N(int(0x100 - nbanks))), uint32(r.N(int(0x100 - nbanks)))}[r.N(4)]
		base, span = bank0<<16, nbanks<<16
		rep.Count("history over several whole banks")
	}
	pick := func() uint32 { return base + uint32(r.N(int(span))) }
	var ranges [][2]uint32
	var probeBurst func(s, e uint32)
	attach := func() {
		s := (pick() &^ 15)
		e := s + uint32(r.N(8))*16 + 15
		if banked {
			switch r.N(6) {
			case 0, 1: // several whole banks
				b0 := bank0 + uint32(r.N(int(nbanks-1)))
				b1 := b0 + 1 + uint32(r.N(int(bank0+nbanks-b0-1)))
				s, e = b0<<16, b1<<16|0xFFFF
				if r.Chance(25) && s >= 0x10000 {
					s -= uint32(1+r.N(0xFFF)) << 4 // a partial bank in front
				}
				if r.Chance(25) && e < 0xFF0000 {
					e += uint32(1+r.N(0xFFF)) << 4 // a partial bank behind
				}
				rep.Count("attach: several whole banks")
			case 2: // exactly one whole bank
				s &= 0xFF0000
				e = s | 0xFFFF
				rep.Count("attach: one whole bank")
			case 3: // a large part of one bank
				e = s&0xFF0000 | (s&0xFFFF+uint32(r.N(0x1000))<<4)&0xFFFF | 15
				if e < s {
					s, e = e&^15, s|15
				}
				rep.Count("attach: part of a bank")
			case 4: // a few segments straddling a bank boundary
				s = (s&0xFF0000 + 0x10000 - uint32(1+r.N(4))<<4) & 0xFFFFFF
				e = s + uint32(1+r.N(8))<<4 + 15
				rep.Count("attach: straddles a bank boundary")
			default:
				rep.Count("attach: few segments inside a bank")
			}
		}
		if e > 0xFFFFFF {
			e = 0xFFFFFF
		}
		switch r.N(16) {
		case 12: // degenerate argument shapes: the end is 0 / below the start / equal to the start
			switch r.N(5) {
			case 0:
				e = 0
				if r.Chance(20) {
					s = 0
				}
				rep.Count("attach: aligned start, end 0")
			case 1:
				e = s
				rep.Count("attach: end equals start")
			case 2:
				if s >= 32 {
					e = s - uint32(2+r.N(30))
				}
				rep.Count("attach: misaligned end below the start")
			case 3:
				if s >= 16 {
					e = s - 1 // start == end+1, aligned: an empty range
				}
				rep.Count("attach: start equals end+1")
			default:
				e = uint32(r.N(int(s/16+1)))*16 + uint32(r.N(15)) // any misaligned end at or below the start
				rep.Count("attach: misaligned end below the start")
			}
		case 13: // both ends misaligned
			s += uint32(1 + r.N(15))
			e -= uint32(1 + r.N(15))
			rep.Count("attach: both ends misaligned")
		case 14: // one end on the border of the address space
			if r.Bool() {
				s = 0
				if r.Chance(30) {
					e = uint32(r.N(15))
				} else if e > 0x80000 {
					e = uint32(r.N(0x8000))<<4 | 15
				}
			} else {
				e = 0xFFFFFF
				if r.Chance(30) {
					s = 0xFFFFF0 + uint32(1+r.N(15))
				} else if e-s > 0x80000 {
					s = e - uint32(r.N(0x8000))<<4 - 15
				}
			}
			rep.Count("attach: at $000000 / $FFFFFF")
		case 0:
			s += uint32(1 + r.N(15)) // misaligned start
			rep.Count("attach: misaligned start")
		case 1:
			e -= uint32(1 + r.N(15)) // misaligned end
			rep.Count("attach: misaligned end")
		case 2:
			if len(ranges) > 0 { // re-attach exactly an earlier range
				p := ranges[r.N(len(ranges))]
				s, e = p[0], p[1]
				rep.Count("attach: re-attach same range")
			}
		case 3:
			if len(ranges) > 0 { // adjacent to an earlier range
				p := ranges[r.N(len(ranges))]
				s = p[1] + 1
				e = s + uint32(r.N(4))*16 + 15
				if e > 0xFFFFFF || s > 0xFFFFFF {
					s, e = p[0], p[1]
				}
				rep.Count("attach: adjacent range")
			}
		case 4:
			if s >= 32 { // empty range (start > end), aligned
				e = s - 17
				rep.Count("attach: empty range")
			}
		default:
			rep.Count("attach: aligned range")
		}
		ranges = append(ranges, [2]uint32{s, e})
		ops = append(ops, busOp{kind: 'A', m: uint32(1 + r.N(6)), s: s, e: e})
		if r.Chance(75) {
			probeBurst(s, e)
		}
	}
	// after an Attach (successful or not) the routing is probed where it must and where it must not have changed: the ends of the
	// new and of every earlier range, the same offsets in sibling banks, neighbouring 16-byte segments, where a memory of the
	// size the attached one reports would end, the borders of the address space
	probeBurst = func(s, e uint32) {
		var cand []uint32
		add := func(a uint32) {
			if a <= 0xFFFFFF {
				cand = append(cand, a)
			}
		}
		inner := s
		if e > s && e <= 0xFFFFFF {
			inner = s + uint32(r.N(int(e-s+1)))
		}
		for _, a := range []uint32{s, inner, e, inner ^ uint32(r.N(16))} {
			add(a)
			add(a - 1)
			add(a + 1)
			add(a + 16)
			add(a - 16)
			for j := uint32(1); j <= 3; j++ {
				add(a + j<<16) // the same offset in the banks after / before
				add(a - j<<16)
			}
			add(a&0xFFFF | uint32(r.N(256))<<16)
		}
		for k := uint(4); k <= 16; k += 2 {
			add(s + 1<<k - 1) // where a device of 2^k bytes at the start would end, and the byte behind it
			add(s + 1<<k)
		}
		for _, p := range ranges {
			add(p[0])
			add(p[0] - 1)
			add(p[1])
			add(p[1] + 1)
		}
		add(0)
		add(0xFFFFFF)
		for k := 3 + r.N(5); k > 0 && len(cand) > 0; k-- {
			a := cand[r.N(len(cand))]
			switch r.N(10) {
			case 0, 1:
				ops = append(ops, busOp{kind: 'W', s: a})
			case 2:
				ops = append(ops, busOp{kind: 'T', s: a})
				// a byte access right after the 24-bit read, in the segment the read ended in or next to it
				a2 := a&0xFF0000 | uint32(uint16(a)+2)
				a2 = (a2&^15 + uint32(r.N(3))*16 - 16 + uint32(r.N(16))) & 0xFFFFFF
				ops = append(ops, busOp{kind: "RW"[r.N(2)], s: a2})
				rep.Count("read24 then byte access nearby")
			case 3:
				lo := a - min(a, uint32(r.N(24)))
				hi := min(a+uint32(r.N(24)), 0xFFFFFF)
				ops = append(ops, busOp{kind: 'D', s: lo, e: hi, n: hi - lo + 1 + uint32(r.N(3))})
			default:
				ops = append(ops, busOp{kind: 'R', s: a})
			}
			rep.Count("probe after attach")
		}
	}
	query := func() {
		var a uint32
		if len(ranges) > 0 && r.Chance(70) {
			p := ranges[r.N(len(ranges))]
			a = []uint32{p[0] - 1, p[0], p[0] + 1, p[1] - 1, p[1], p[1] + 1, p[0] + 15, p[0] + 16}[r.N(8)] & 0xFFFFFF
		} else {
			a = pick()
		}
		switch r.N(6) {
		case 0, 1:
			ops = append(ops, busOp{kind: 'R', s: a})
		case 2:
			ops = append(ops, busOp{kind: 'W', s: a})
		case 3:
			if r.Chance(25) {
				a = a&0xFF0000 | uint32(0xFFFD+r.N(3)) // the three bytes wrap inside the bank
			} else if r.Chance(40) {
				a = a&^15 | uint32(13+r.N(3)) // the three bytes straddle a 16-byte segment boundary
			}
			ops = append(ops, busOp{kind: 'T', s: a})
			rep.Count("read24")
		default:
			e := a + uint32(r.N(70))
			if r.Chance(10) {
				e = a // single byte
			}
			if r.Chance(5) && a > 0 {
				e = a - 1 // empty
			}
			if e > 0xFFFFFF {
				e = 0xFFFFFF
			}
			n := uint32(0)
			if e >= a {
				n = e - a + 1
			}
			ops = append(ops, busOp{kind: 'D', s: a, e: e, n: n + uint32(r.N(4))})
			rep.Count(fmt.Sprintf("dump: start alignment %d", map[bool]int{true: 0, false: 1}[a%16 == 0]))
			rep.Count(fmt.Sprintf("dump: spans %d+ segments", min(4, int(e>>4)-int(a>>4)+1)))
		}
	}
	na := r.N(7)
	for i := 0; i < na; i++ {
		attach()
	}
	nq := 1 + r.N(8)
	for i := 0; i < nq; i++ {
		if r.Chance(15) {
			attach()
		}
		query()
	}
	return ops
}

func renderOps(ops []busOp) string {
	ss := make([]string, len(ops))
	for i, o := range ops {
		ss[i] = o.String()
	}
	return "bus " + strings.Join(ss, ";")
}

// busOracle recomputes every result of a history from the property's own statement (last successful attach wins,
// dump = pointwise reads), independently of both the Go bus and the Lean model.
func busOracle(ops []busOp) []string {
	type rg struct{ m, s, e uint32 }
	var hist []rg
	route := func(a uint32) (uint32, bool) {
		for i := len(hist) - 1; i >= 0; i-- {
			if hist[i].s <= a && a <= hist[i].e {
				return hist[i].m, true
			}
		}
		return 0, false
	}
	out := make([]string, len(ops))
	for i, o := range ops {
		switch o.kind {
		case 'A':
			if o.s%16 != 0 {
				out[i] = "es"
			} else if (o.e+1)%16 != 0 {
				out[i] = "ee"
			} else {
				out[i] = "ok"
				hist = append(hist, rg{o.m, o.s, o.e})
			}
		case 'R', 'W':
			if m, ok := route(o.s); ok {
				out[i] = fmt.Sprintf("m%x:%x", m, o.s)
			} else {
				out[i] = "panic"
			}
		case 'T':
			var parts []string
			for k := uint32(0); k < 3; k++ {
				a := o.s&0xFF0000 | uint32(uint16(o.s)+uint16(k))
				m, ok := route(a)
				if !ok {
					parts = nil
					break
				}
				parts = append(parts, fmt.Sprintf("m%x:%x", m, a))
			}
			if parts == nil {
				out[i] = "panic"
			} else {
				out[i] = strings.Join(parts, ",")
			}
		case 'D':
			var sb strings.Builder
			cnt := uint32(0)
			if o.e >= o.s {
				cnt = o.e - o.s + 1
			}
			sb.WriteString(strconv.FormatUint(uint64(cnt), 16))
			sb.WriteByte(':')
			for j := uint32(0); j < o.n; j++ {
				v := byte(0xA5) ^ byte(j)
				if j < cnt {
					if m, ok := route(o.s + j); ok {
						v = prng.Hash(uint64(m), o.s+j)
					}
				}
				fmt.Fprintf(&sb, "%02x", v)
			}
			out[i] = sb.String()
		}
	}
	return out
}

// ---- buses related by struct copy ----
//
// A bus.Bus copied by value is a separate object: an Attach on the copy is not an Attach on the original (and vice versa). Each
// case attaches a few ranges to a bus, copies the struct, attaches further ranges to the copy and to the original (inside the same
// banks, in banks only one of them uses, whole banks) and then probes both at the ends of every range: each bus must route
// according to its own Attach history only (the shared prefix plus its own later calls).
type busCopyCase struct {
	pre, onCopy, onOrig, probes []busOp
}

func (c busCopyCase) String() string {
	return "bus1: " + renderOps(c.pre) + " | bus2 := *bus1 (copied by value) | bus2: " + renderOps(c.onCopy) + " | bus1: " + renderOps(c.onOrig) + " | both probed: " + renderOps(c.probes)
}

func genBusCopyCase(r *prng.R) busCopyCase {
	var c busCopyCase
	banks := []uint32{uint32(r.N(256)), uint32(r.N(256)), uint32(r.N(256)), 0, 0xFF}
	rng := func() (uint32, uint32) {
		b := banks[r.N(len(banks))]
		switch r.N(4) {
		case 0: // whole bank(s)
			e := b + uint32(r.N(3))
			if e > 0xFF {
				e = 0xFF
			}
			return b << 16, e<<16 | 0xFFFF
		case 1: // half a bank
			h := uint32(r.N(2)) << 15
			return b<<16 | h, b<<16 | h | 0x7FFF
		}
		s := b<<16 | uint32(r.N(0x1000))<<4
		e := s + uint32(r.N(64))<<4 + 15
		if e > 0xFFFFFF {
			e = 0xFFFFFF
		}
		return s, e
	}
	id := uint32(1)
	att := func(n int) []busOp {
		var ops []busOp
		for i := 0; i < n; i++ {
			s, e := rng()
			ops = append(ops, busOp{kind: 'A', m: id, s: s, e: e})
			id++
		}
		return ops
	}
	c.pre = att(r.N(4)) // sometimes nothing at all is attached before the copy
	c.onCopy = att(1 + r.N(3))
	c.onOrig = att(r.N(3))
	var all []busOp
	all = append(append(append(all, c.pre...), c.onCopy...), c.onOrig...)
	for _, o := range all {
		for _, a := range []uint32{o.s, o.s - 1, o.e, o.e + 1, o.s + (o.e-o.s)/2, o.s + 16, o.e - 16} {
			if a > 0xFFFFFF {
				continue
			}
			switch r.N(8) {
			case 0:
				c.probes = append(c.probes, busOp{kind: 'W', s: a})
			case 1:
				c.probes = append(c.probes, busOp{kind: 'T', s: a})
			case 2:
				lo := a - min(a, uint32(r.N(24)))
				hi := min(a+uint32(r.N(24)), 0xFFFFFF)
				c.probes = append(c.probes, busOp{kind: 'D', s: lo, e: hi, n: hi - lo + 1})
			default:
				c.probes = append(c.probes, busOp{kind: 'R', s: a})
			}
		}
	}
	return c
}

// run: (results of the probes on the original, on the copy), (what the property demands for each)
func (c busCopyCase) run() (got1, got2, want1, want2 []string) {
	cat := func(xs ...[]busOp) []busOp {
		var o []busOp
		for _, x := range xs {
			o = append(o, x...)
		}
		return o
	}
	var log []string
	b1, _ := bus.New()
	runBusOpsOn(b1, c.pre, &log)
	cp := *b1
	b2 := &cp
	runBusOpsOn(b2, c.onCopy, &log)
	runBusOpsOn(b1, c.onOrig, &log)
	got1 = runBusOpsOn(b1, c.probes, &log)
	got2 = runBusOpsOn(b2, c.probes, &log)
	k := len(c.pre)
	want1 = busOracle(cat(c.pre, c.onOrig, c.probes))[k+len(c.onOrig):]
	want2 = busOracle(cat(c.pre, c.onCopy, c.probes))[k+len(c.onCopy):]
	return
}

func (c busCopyCase) fails() (which string, at int, want, got string, bad bool) {
	g1, g2, w1, w2 := c.run()
	for i := range c.probes {
		if g1[i] != w1[i] {
			return "bus1 (the original)", i, w1[i], g1[i], true
		}
		if g2[i] != w2[i] {
			return "bus2 (the copy)", i, w2[i], g2[i], true
		}
	}
	return "", 0, "", "", false
}

func runBusCopies(rep *report.Report) {
	n := 14
	if tier == "thorough" {
		n = 300
	}
	r := prng.New(seed ^ 0xc0b1)
	for i := 0; i < n; i++ {
		c := genBusCopyCase(r.Fork())
		rep.Count("bus copied by value: cases")
		rep.CountN("bus copied by value: probes", int64(2*len(c.probes)))
		rep.Evaluations += int64(2 * len(c.probes))
		if _, _, _, _, bad := c.fails(); !bad {
			continue
		}
		// minimise: drop attaches and probes while some probe still disagrees
		for _, list := range []*[]busOp{&c.probes, &c.onOrig, &c.pre, &c.onCopy} {
			for j := 0; j < len(*list); j++ {
				saved := *list
				*list = append(append([]busOp{}, saved[:j]...), saved[j+1:]...)
				if _, _, _, _, bad := c.fails(); bad {
					j--
				} else {
					*list = saved
				}
			}
		}
		which, at, want, got, _ := c.fails()
		rep.Add(report.Finding{Property: "C13", Kind: "violation", Clause: "a bus routes according to the Attach calls made on it: an Attach on a by-value copy of a Bus is not an Attach on the original (nor the other way round)",
			Input: c.String(), Expected: fmt.Sprintf("%s, probe %d (%s): %s", which, at+1, c.probes[at].String(), want), Actual: got})
	}
}

func shrinkBus(ops []busOp, fails func([]busOp) bool) []busOp {
	for changed := true; changed; {
		changed = false
		for i := 0; i < len(ops); i++ {
			c := append(append([]busOp{}, ops[:i]...), ops[i+1:]...)
			if len(c) > 0 && fails(c) {
				ops, changed = c, true
				i--
			}
		}
	}
	return ops
}

func runBus() {
	rep := report.New("bus", tier, seed)
	n := 20000
	if tier == "thorough" {
		n = 400000
	}
	r := prng.New(seed)
	hists := make([][]busOp, 0, n+8)
	// directed corpus first (minimised past failures / the D5 scenario)
	hists = append(hists,
		[]busOp{{kind: 'A', m: 1, s: 0, e: 15}, {kind: 'A', m: 2, s: 16, e: 31}, {kind: 'D', s: 8, e: 23, n: 18}},
		[]busOp{{kind: 'A', m: 1, s: 0, e: 15}, {kind: 'A', m: 2, s: 32, e: 47}, {kind: 'D', s: 8, e: 40, n: 35}},
		[]busOp{{kind: 'D', s: 3, e: 50, n: 50}},
		[]busOp{{kind: 'A', m: 1, s: 0, e: 15}, {kind: 'A', m: 2, s: 16, e: 31}, {kind: 'R', s: 4}, {kind: 'T', s: 14}, {kind: 'R', s: 17}, {kind: 'W', s: 18}},
		[]busOp{{kind: 'A', m: 1, s: 0x10000, e: 0x1000F}, {kind: 'A', m: 2, s: 0x1FFF0, e: 0x1FFFF}, {kind: 'A', m: 3, s: 0x20000, e: 0x2000F}, {kind: 'T', s: 0x1FFFE}, {kind: 'R', s: 0x10001}},
		[]busOp{{kind: 'A', m: 1, s: 0xFFFFF0, e: 0xFFFFFF}, {kind: 'D', s: 0xFFFFE8, e: 0xFFFFFF, n: 24}, {kind: 'R', s: 0xFFFFFF}},
	)
	// several whole banks under one Attach, then part of one bank re-attached: the same offsets in the sibling banks, the
	// neighbouring segments and the far ends keep their routing
	for _, b0 := range []uint32{0x00, 0x7E, 0xFC} {
		s0, e0 := b0<<16, (b0+3)<<16|0xFFFF
		s1, e1 := (b0+1)<<16|0x2000, (b0+1)<<16|0x7FFF
		h := []busOp{{kind: 'A', m: 1, s: s0, e: e0}, {kind: 'A', m: 2, s: s1, e: e1}}
		for _, a := range []uint32{s1, s1 - 1, e1, e1 + 1, s1 + 0x1234} {
			for d := int32(-1); d <= 2; d++ {
				x := uint32(int32(a) + d<<16)
				if x >= s0 && x <= e0 {
					h = append(h, busOp{kind: 'R', s: x}, busOp{kind: 'W', s: x})
				}
			}
		}
		h = append(h, busOp{kind: 'T', s: s1 + 0x10000 - 2}, busOp{kind: 'R', s: s1 + 0x10000}, busOp{kind: 'D', s: s1 + 0x10000 - 12, e: s1 + 0x10000 + 19, n: 32},
			busOp{kind: 'A', m: 3, s: s0 + 0x20000, e: e0}, busOp{kind: 'R', s: s0 + 0x1FFFF}, busOp{kind: 'R', s: s0 + 0x20000}, busOp{kind: 'R', s: s1}, busOp{kind: 'R', s: s1 + 0x20000},
			busOp{kind: 'R', s: s0}, busOp{kind: 'R', s: e0})
		hists = append(hists, h)
	}
	// degenerate argument shapes on top of an attached area and over a hole: rejected, and every probe routes as before
	for _, m := range []uint32{1, 5, 6} {
		for _, se := range [][2]uint32{{0x1000, 0}, {0, 0}, {0x1000, 0x1000}, {0x1000, 0xFFE}, {0x1001, 0x100F}, {0x1000, 0x100E}, {0x200000, 0}, {0xFFFFF0, 0}, {0xFFFFF1, 0xFFFFFF}, {0x1008, 0x1007}} {
			h := []busOp{{kind: 'A', m: 2, s: 0, e: 0x1FFF}, {kind: 'A', m: m, s: se[0], e: se[1]}}
			for _, a := range []uint32{0, 0xF, 0x10, 0xFFF, 0x1000, 0x100F, 0x1010, 0x103F, 0x1040, 0x10FF, 0x1FFF, 0x2000, 0x200000, 0x20000F, 0x200010, 0x2000FF, 0xFFFFF0, 0xFFFFFF} {
				h = append(h, busOp{kind: 'R', s: a})
			}
			h = append(h, busOp{kind: 'W', s: se[0] & 0xFFFFFF}, busOp{kind: 'D', s: 0x1FF8, e: 0x2017, n: 32}, busOp{kind: 'D', s: 0x200000, e: 0x20001F, n: 32})
			hists = append(hists, h)
		}
	}
	// the whole address space under one Attach, then a hole-free re-attachment of its two ends
	hists = append(hists, []busOp{{kind: 'A', m: 1, s: 0, e: 0xFFFFFF}, {kind: 'A', m: 2, s: 0, e: 0xF}, {kind: 'A', m: 3, s: 0xFFFFF0, e: 0xFFFFFF}, {kind: 'R', s: 0}, {kind: 'R', s: 0x10},
		{kind: 'R', s: 0x10000}, {kind: 'R', s: 0xFF0000}, {kind: 'R', s: 0xFFFFEF}, {kind: 'R', s: 0xFFFFF0}, {kind: 'T', s: 0xFFFFFE}, {kind: 'W', s: 0x7FFFFF}, {kind: 'D', s: 0xFFFFE8, e: 0xFFFFFF, n: 24}})
	for i := 0; i < n; i++ {
		hists = append(hists, genBusHistory(r.Fork(), rep))
	}
	d, err := drv.Start(modelDrv)
	var replies []string
	if err == nil {
		defer d.Close()
		reqs := make([]string, len(hists))
		for i, h := range hists {
			reqs[i] = renderOps(h)
		}
		replies, err = d.Batch(reqs)
	}
	if err != nil {
		rep.Add(report.Finding{Property: "C13", Kind: "disagreement", Clause: "model driver unavailable", Detail: err.Error()})
	}
	distinct := map[string]bool{}
	var ops int64
	nviol := 0
	for i, h := range hists {
		got := execBusOps(h)
		want := busOracle(h)
		ops += int64(len(h))
		shape := ""
		for j, o := range h {
			c := got[j]
			if k := strings.IndexByte(c, ':'); k >= 0 {
				c = c[:k]
			}
			shape += string(o.kind) + c[:min(2, len(c))]
		}
		distinct[shape] = true
		if i%2503 == 0 {
			rep.Sample(map[string]string{"history": renderOps(h), "go": strings.Join(got, ";")})
		}
		// property oracle on the real code
		for j := range h {
			if got[j] != want[j] {
				nviol++
				if nviol > 15 {
					break
				}
				// the failing history is minimised on a fresh Bus each time, so that the reported input fails by itself
				m := shrinkBus(h, func(c []busOp) bool {
					sharedBus = nil
					g, w := execBusOps(c), busOracle(c)
					for k := range c {
						if g[k] != w[k] {
							return true
						}
					}
					return false
				})
				sharedBus = nil
				rep.Add(report.Finding{Property: "C13", Kind: "violation", Clause: "routing follows the most recent successful Attach / EaDump equals byte-wise reads (Go bus vs property oracle)",
					Input: renderOps(m), Expected: strings.Join(busOracle(m), ";"), Actual: strings.Join(execBusOps(m), ";")})
				sharedBus = nil
				break
			}
		}
		// model correspondence
		if replies != nil && i < len(replies) {
			if replies[i] != strings.Join(got, ";") {
				rep.Add(report.Finding{Property: "C13", Kind: "disagreement", Clause: "Lean BusModel vs emulator/bus on the same history",
					Input: renderOps(h), Expected: replies[i] + " (model)", Actual: strings.Join(got, ";") + " (go)"})
			}
		}
	}
	rep.Evaluations = ops
	runBusCopies(rep)
	rep.Distinct = int64(len(distinct))
	rep.CountN("histories", int64(len(hists)))
	rep.Rule = "random Attach/read/write/24-bit-read/dump histories (aligned, misaligned, overlapping, adjacent, re-attached, empty ranges; a third of the histories attach ranges spanning several whole " +
		"64 KiB banks, with partial banks in front / behind, then re-attach parts of single banks; degenerate argument shapes: end 0, end = start, end below the start (aligned and not), both ends misaligned, " +
		"ends at $000000 / $FFFFFF, memories reporting non-zero sizes; after most Attach calls a burst of probes at the ends of all ranges, the same offsets in sibling banks, neighbouring segments, " +
		"device-size distances and the borders of the space, including a byte access right after a 24-bit read; dumps with every start/end alignment " +
		"across memories and holes; memories 5 and 6 are the library's own memory.RAM / memory.ROM with offsets that are not multiples of 16; windows at $000000, random and $FFFC00) run on the real bus.Bus with address-logging memories, on the Lean model and on a Go oracle of the property; " +
		"buses related by struct copy: ranges attached to a bus, the bus.Bus copied by value, further ranges attached to the copy and to the original (same banks, other banks, whole banks), both probed at every range end against their own Attach history; " +
		"evaluations = operations executed; distinct_nontrivial = distinct history shapes (sequence of op kind + outcome class)"
	rep.Emit()
}
