package main

// gotolean globals — fact extractor for C18: every package-level variable of the library and every place where one
// could be modified after initialisation: direct writes (assignment, ++/--, range assignment) outside init / var
// initialisers, address-taking, pointer-receiver method calls that write their receiver, and reference-typed globals
// (slices, maps, pointers, slices of global arrays) escaping into code that writes through the alias.

import (
	"fmt"
	"go/ast"
	"go/token"
	"go/types"
	"os"
	"path/filepath"
	"sort"
	"strings"
)

type gWrite struct{ v, site, how string }

func libPackages() []string {
	var rels []string
	filepath.Walk(*repo, func(p string, fi os.FileInfo, err error) error {
		if err != nil {
			return nil
		}
		if fi.IsDir() {
			b := filepath.Base(p)
			if p != *repo && (strings.HasPrefix(b, ".") || b == "testdata" || b == "vendor") {
				return filepath.SkipDir
			}
			ents, _ := os.ReadDir(p)
			for _, e := range ents {
				n := e.Name()
				if strings.HasSuffix(n, ".go") && !strings.HasSuffix(n, "_test.go") {
					rel, _ := filepath.Rel(*repo, p)
					if rel == "." {
						rel = ""
					}
					rels = append(rels, rel)
					break
				}
			}
		}
		return nil
	})
	sort.Strings(rels)
	return rels
}

type gAnalysis struct {
	l       *loader
	pkgs    []*pkgInfo
	globals map[types.Object]string // object -> "pkg.name"
	funcs   map[types.Object]*ast.FuncDecl
	finfo   map[*ast.FuncDecl]*pkgInfo
	writes  []gWrite
}

func (g *gAnalysis) objOf(p *pkgInfo, id *ast.Ident) types.Object {
	if o := p.info.Uses[id]; o != nil {
		return o
	}
	return p.info.Defs[id]
}

// rootObj: the variable an lvalue / operand expression is rooted at (x, x.f, x[i], *x, x[i:j], pkg.x)
func (g *gAnalysis) rootObj(p *pkgInfo, e ast.Expr) types.Object {
	for {
		switch x := e.(type) {
		case *ast.Ident:
			return g.objOf(p, x)
		case *ast.ParenExpr:
			e = x.X
		case *ast.IndexExpr:
			e = x.X
		case *ast.SliceExpr:
			e = x.X
		case *ast.StarExpr:
			e = x.X
		case *ast.SelectorExpr:
			if id, ok := x.X.(*ast.Ident); ok {
				if _, isPkg := g.objOf(p, id).(*types.PkgName); isPkg {
					return g.objOf(p, x.Sel)
				}
			}
			e = x.X
		default:
			return nil
		}
	}
}

func isRefType(t types.Type) bool {
	switch t.Underlying().(type) {
	case *types.Slice, *types.Map, *types.Pointer, *types.Chan:
		return true
	}
	return false
}

// writesThrough: does function fd modify memory reachable from its parameter / receiver object `param`?
func (g *gAnalysis) writesThrough(fd *ast.FuncDecl, param types.Object, depth int) (bool, string) {
	if fd == nil || fd.Body == nil {
		return true, "unknown callee"
	}
	if depth > 4 {
		return true, "call depth"
	}
	p := g.finfo[fd]
	found, why := false, ""
	ast.Inspect(fd.Body, func(n ast.Node) bool {
		if found {
			return false
		}
		mark := func(e ast.Expr, how string) {
			if e == nil {
				return
			}
			if _, plain := e.(*ast.Ident); plain && how == "assign" {
				return // rebinding the parameter itself is local
			}
			if g.rootObj(p, e) == param {
				found, why = true, how+" at "+g.l.fset.Position(e.Pos()).String()
			}
		}
		switch x := n.(type) {
		case *ast.AssignStmt:
			for _, lhs := range x.Lhs {
				mark(lhs, "assign")
			}
			// aliasing into another variable: conservative
			for _, rhs := range x.Rhs {
				if g.rootObj(p, rhs) == param && isRefType(p.info.TypeOf(rhs)) {
					found, why = true, "aliased at "+g.l.fset.Position(rhs.Pos()).String()
				}
			}
		case *ast.IncDecStmt:
			mark(x.X, "incdec")
		case *ast.UnaryExpr:
			if x.Op == token.AND {
				mark(x.X, "address taken")
			}
		case *ast.CallExpr:
			if w, why2 := g.callWrites(p, x, param, depth+1); w {
				found, why = true, why2
			}
		}
		return true
	})
	return found, why
}

// callWrites: does this call modify memory reachable from `obj` (passed as argument or receiver)?
func (g *gAnalysis) callWrites(p *pkgInfo, call *ast.CallExpr, obj types.Object, depth int) (bool, string) {
	var callee *ast.FuncDecl
	var calleeObj types.Object
	switch f := call.Fun.(type) {
	case *ast.Ident:
		calleeObj = g.objOf(p, f)
	case *ast.SelectorExpr:
		calleeObj = g.objOf(p, f.Sel)
		// receiver
		if g.rootObj(p, f.X) == obj {
			if sel := p.info.Selections[f]; sel != nil {
				if fn, ok := sel.Obj().(*types.Func); ok {
					sig := fn.Type().(*types.Signature)
					ptrRecv := false
					if sig.Recv() != nil {
						_, ptrRecv = sig.Recv().Type().(*types.Pointer)
					}
					if ptrRecv || isRefType(p.info.TypeOf(f.X)) {
						fd := g.funcs[fn]
						if fd == nil {
							return true, "method " + fn.FullName() + " without source"
						}
						var recvObj types.Object
						if fd.Recv != nil && len(fd.Recv.List) > 0 && len(fd.Recv.List[0].Names) > 0 {
							recvObj = g.finfo[fd].info.Defs[fd.Recv.List[0].Names[0]]
						}
						if recvObj != nil {
							if w, why := g.writesThrough(fd, recvObj, depth); w {
								return true, "via " + fn.FullName() + ": " + why
							}
						}
					}
				}
			}
		}
	}
	if b, ok := calleeObj.(*types.Builtin); ok {
		switch b.Name() {
		case "len", "cap", "print", "println", "panic", "min", "max":
			return false, ""
		case "copy":
			if len(call.Args) > 0 && g.rootObj(p, call.Args[0]) == obj {
				return true, "copy destination"
			}
			return false, ""
		case "append":
			// append(x, ...) may write into x's backing array when it has spare capacity
			if len(call.Args) > 0 && g.rootObj(p, call.Args[0]) == obj {
				return true, "append to alias"
			}
			return false, ""
		case "delete", "clear":
			if len(call.Args) > 0 && g.rootObj(p, call.Args[0]) == obj {
				return true, b.Name()
			}
			return false, ""
		}
	}
	if fn, ok := calleeObj.(*types.Func); ok {
		callee = g.funcs[fn]
	}
	for i, a := range call.Args {
		if g.rootObj(p, a) != obj {
			continue
		}
		t := p.info.TypeOf(a)
		if t == nil || !isRefType(t) {
			if u, isAddr := a.(*ast.UnaryExpr); !(isAddr && u.Op == token.AND) {
				continue // passed by value
			}
		}
		if _, isConv := calleeObj.(*types.TypeName); isConv {
			continue // conversion, e.g. string(b)
		}
		if callee == nil {
			// fmt.*printf, errors.New etc. read their arguments; anything else is unknown
			if fn, ok := calleeObj.(*types.Func); ok && fn.Pkg() != nil && (fn.Pkg().Path() == "fmt" || fn.Pkg().Path() == "errors" || fn.Pkg().Path() == "strings" || fn.Pkg().Path() == "bytes") {
				continue
			}
			return true, "escapes into a callee without source"
		}
		// find the parameter object
		idx := 0
		var pobj types.Object
		for _, fl := range callee.Type.Params.List {
			for _, nm := range fl.Names {
				if idx == i {
					pobj = g.finfo[callee].info.Defs[nm]
				}
				idx++
			}
		}
		if pobj == nil {
			return true, "variadic / unnamed parameter"
		}
		if w, why := g.writesThrough(callee, pobj, depth); w {
			return true, "via " + callee.Name.Name + ": " + why
		}
	}
	return false, ""
}

func genGlobals(l *loader) {
	g := &gAnalysis{l: l, globals: map[types.Object]string{}, funcs: map[types.Object]*ast.FuncDecl{}, finfo: map[*ast.FuncDecl]*pkgInfo{}}
	for _, rel := range libPackages() {
		p, err := l.load(rel)
		if err != nil {
			die("globals: load %q: %v", rel, err)
		}
		g.pkgs = append(g.pkgs, p)
	}
	type gv struct{ pkg, name, typ string }
	var vars []gv
	for _, p := range g.pkgs {
		sc := p.pkg.Scope()
		for _, n := range sc.Names() {
			if v, ok := sc.Lookup(n).(*types.Var); ok {
				g.globals[v] = p.pkg.Path() + "." + n
				vars = append(vars, gv{p.pkg.Path(), n, types.TypeString(v.Type(), func(q *types.Package) string { return q.Name() })})
			}
		}
		for _, f := range p.files {
			for _, d := range f.Decls {
				if fd, ok := d.(*ast.FuncDecl); ok {
					if o := p.info.Defs[fd.Name]; o != nil {
						g.funcs[o] = fd
					}
					g.finfo[fd] = p
				}
			}
		}
	}
	// scan every function body that is not an init function
	for _, p := range g.pkgs {
		for _, f := range p.files {
			for _, d := range f.Decls {
				fd, ok := d.(*ast.FuncDecl)
				if !ok || fd.Body == nil || (fd.Recv == nil && fd.Name.Name == "init") {
					continue
				}
				where := func(n ast.Node) string {
					pos := l.fset.Position(n.Pos())
					rel, _ := filepath.Rel(*repo, pos.Filename)
					return fmt.Sprintf("%s:%d (%s)", rel, pos.Line, fd.Name.Name)
				}
				ast.Inspect(fd.Body, func(n ast.Node) bool {
					rec := func(e ast.Expr, how string) {
						if e == nil {
							return
						}
						if o := g.rootObj(p, e); o != nil {
							if name, isG := g.globals[o]; isG {
								g.writes = append(g.writes, gWrite{name, where(e), how})
							}
						}
					}
					switch x := n.(type) {
					case *ast.AssignStmt:
						for _, lhs := range x.Lhs {
							rec(lhs, "assignment")
						}
						for _, rhs := range x.Rhs { // aliasing a reference-typed global into a variable or field
							if o := g.rootObj(p, rhs); o != nil {
								if name, isG := g.globals[o]; isG && isRefType(p.info.TypeOf(rhs)) {
									if _, isCall := rhs.(*ast.CallExpr); !isCall {
										g.writes = append(g.writes, gWrite{name, where(rhs), "aliased into a variable"})
									}
								}
							}
						}
					case *ast.IncDecStmt:
						rec(x.X, "increment")
					case *ast.RangeStmt:
						if x.Tok == token.ASSIGN {
							rec(x.Key, "range assignment")
							rec(x.Value, "range assignment")
						}
					case *ast.UnaryExpr:
						if x.Op == token.AND {
							rec(x.X, "address taken")
						}
					case *ast.CallExpr:
						for o, name := range g.globals {
							if w, why := g.callWrites(p, x, o, 0); w {
								g.writes = append(g.writes, gWrite{name, where(x), "call may write through it: " + why})
							}
						}
					}
					return true
				})
			}
		}
	}
	sort.Slice(vars, func(i, j int) bool { return vars[i].pkg+"."+vars[i].name < vars[j].pkg+"."+vars[j].name })
	sort.Slice(g.writes, func(i, j int) bool {
		if g.writes[i].v != g.writes[j].v {
			return g.writes[i].v < g.writes[j].v
		}
		return g.writes[i].site < g.writes[j].site
	})
	var b strings.Builder
	b.WriteString("-- GENERATED by /verif/harness/cmd/gotolean from /repo — do not edit; regenerated on every check run.\nnamespace Gen\n\n")
	b.WriteString("/-- a package-level variable of the library -/\nstructure GlobalVar where\n  pkg : String\n  name : String\n  type : String\n  deriving Repr, DecidableEq\n\n")
	b.WriteString("/-- a place outside `init` where a package-level variable may be modified -/\nstructure GlobalWrite where\n  var : String\n  site : String\n  how : String\n  deriving Repr, DecidableEq\n\n")
	b.WriteString("def libraryPackages : List String := [\n")
	for i, p := range g.pkgs {
		sep := ","
		if i == len(g.pkgs)-1 {
			sep = ""
		}
		fmt.Fprintf(&b, "  %q%s\n", p.pkg.Path(), sep)
	}
	b.WriteString("]\n\ndef globalVars : List GlobalVar := [\n")
	for i, v := range vars {
		sep := ","
		if i == len(vars)-1 {
			sep = ""
		}
		fmt.Fprintf(&b, "  ⟨%q, %q, %q⟩%s\n", v.pkg, v.name, v.typ, sep)
	}
	b.WriteString("]\n\ndef globalWrites : List GlobalWrite := [\n")
	for i, w := range g.writes {
		sep := ","
		if i == len(g.writes)-1 {
			sep = ""
		}
		fmt.Fprintf(&b, "  ⟨%q, %q, %q⟩%s\n", w.v, w.site, w.how, sep)
	}
	b.WriteString("]\n\nend Gen\n")
	writeIfChanged("Globals.lean", b.String())
}
