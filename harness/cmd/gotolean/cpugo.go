package main

// gotolean cpugo — translator of the two 65C816 interpreters (emulator/cpu65c816/cpu.go, emulator/cpualt/cpu.go + bus.go)
// into Lean: one `def` per Go function, in the vocabulary of the hand-written model (lean/SnesVerif/Cpu/Impl.lean: the
// register record `Cpu.Regs`, the execution monad `Cpu.Ex`, the bus primitives `Cpu.eaRead` / `Cpu.eaWrite`).  The tie
// theorems (lean/SnesVerif/Cpu/GoTie*.lean) prove every generated routine equal to the model's routine, so an edit to a Go
// routine body changes the generated text and the theorem is re-checked against what the code says now.
//
// Translation conventions (trusted base; fails loudly on anything else):
//   byte / uint16 / uint64      BitVec 8 / 16 / 64 with Go's wrap-around operators
//   uint32                      Nat, every + - << reduced modulo 2^32 explicitly; a Nat field holding a uint32 (StepInfo.EA) is < 2^32
//   int                         Nat (only `int(cpu.Cycles)`)
//   the ten status-flag bytes   Bool fields; `cpu.F == 1` is `c.F`, a flag used as a number is `bit c.F`, an assignment
//                               `cpu.F = e` is `F := flagOf e` (e ≠ 0) and — when e is not the literal 0 or 1 — a separate generated
//                               obligation `e ≤ 1` (Gen…flag_obligations) so that a flag can provably never hold another byte
//   statements                  Lean `do` notation: mutable locals are `let mut`, `if` / `switch` / early `return` as in Go;
//                               a field assignment is `modify fun c => { c with F := e }`, a field read is a read of the
//                               current register record; calls are hoisted in Go's evaluation order
//   bus                         cpu65c816: `cpu.Bus.EaRead / EaWrite` are the primitives, `Bus.EaRead24_wrap` is the hand-modelled
//                               `Cpu.nRead24_wrap` (its own tie: C13 read24 + vh bus); cpualt: `b.Read[a>>4](a)` / `b.Write[a>>4](a, v)`
//                               are the primitives (index and argument must be the same expression), the open-bus latch `b.M` is a
//                               function-local variable (whole bus mapped: the latch is never observed across calls)
//   not translated              OnPC / OnWDM callbacks (modelled in System/RunUntil.lean), log / fmt calls, the interrupt latch
//                               `cpu.Interrupt` (an input `latch` of the generated Step; writes to it are dropped: see
//                               Cpu/InterruptModel.lean), constructors

import (
	"fmt"
	"regexp"
	"go/ast"
	"go/constant"
	"go/token"
	"go/types"
	"sort"
	"strings"
)

type kind int

const (
	kNone kind = iota
	kU8
	kU16
	kN32
	kU64
	kInt
	kBool
	kMode
	kUnit
	kLatch
)

func (k kind) lean() string {
	switch k {
	case kU8:
		return "U8"
	case kU16:
		return "U16"
	case kN32, kInt, kLatch:
		return "Nat"
	case kU64:
		return "BitVec 64"
	case kBool:
		return "Bool"
	case kMode:
		return "AMode"
	case kUnit:
		return "Unit"
	}
	return "?"
}

var flagFields = map[string]bool{"N": true, "V": true, "M": true, "X": true, "D": true, "I": true, "Z": true, "C": true, "B": true, "E": true}
var regFields = map[string]kind{
	"PC": kU16, "SP": kU16, "RA": kU16, "RX": kU16, "RY": kU16, "RD": kU16, "RAh": kU8, "RAl": kU8, "RXl": kU8, "RYl": kU8,
	"RDBR": kU8, "RK": kU8, "Cycles": kU8, "AllCycles": kU64, "Stopped": kBool, "WDM": kU8, "PPC": kU16, "PRK": kU8, "stepPC": kU16,
	"EA": kN32, "Addr": kU16, "Mode": kMode,
}
var modeNames = map[string]bool{}

func init() {
	for _, m := range strings.Fields("Absolute Absolute_X Absolute_Y Accumulator Immediate Immediate_flagM Immediate_flagX Implied DP DP_X DP_Y DP_X_Indirect DP_Indirect DP_Indirect_Long DP_Indirect_Y DP_Indirect_Long_Y Absolute_X_Indirect Absolute_Indirect Absolute_Indirect_Long Absolute_Long Absolute_Long_X BlockMove PC_Relative PC_Relative_Long Stack_Relative Stack_Relative_Indirect_Y") {
		modeNames[m] = true
	}
}

type cgFunc struct {
	name   string // lean name (unqualified)
	p      *pkgInfo // the package the function lives in (emulator/bus for the bus.Bus access functions of cpu65c816)
	fd     *ast.FuncDecl
	isBus  bool // method of cpualt.Bus
	pure   bool // no CPU / Bus receiver or parameter
	text   string
	deps   map[string]bool
	writes map[string]bool // register fields assigned, transitively (filled lazily)
	obls   []string
}

type cg struct {
	l       *loader
	p       *pkgInfo
	variant string // "Primary" | "Alt"
	funcs   map[string]*cgFunc
	order   []string
	skipped []string

	// per function
	cur      *cgFunc
	cpuObj   types.Object
	busObj   types.Object
	names    map[types.Object]string
	kinds    map[types.Object]kind
	used     map[string]bool
	lines    []string
	tmp      int
	tmpK     map[string]kind
	fresh    bool
	inLambda int
	usesLatch bool
	devs     map[types.Object]string // bus.Bus functions: memory device variable -> the address expression its segment lookup used
	eaSrc    string                  // source text of the expression last assigned to b.EA
	latchOut  bool // the function only sets the interrupt latch: it takes the latch and returns the new value
	outlining bool
	helpers  []string          // outlined switch functions of the current function (emitted before it)
	alias    map[string]string // inside a single-field update block: reads of that field refer to the running value
	reads    []string // register fields read so far in the current statement (outside lambdas they are read before later calls)
}

func (g *cg) die(n ast.Node, format string, a ...interface{}) {
	die("cpugo %s %s: %s", g.variant, g.l.fset.Position(n.Pos()), fmt.Sprintf(format, a...))
}

func (g *cg) ns() string { return "Gen.CpuGo." + g.variant }

func goKind(t types.Type) kind {
	if b, ok := t.Underlying().(*types.Basic); ok {
		switch b.Kind() {
		case types.Uint8:
			return kU8
		case types.Uint16:
			return kU16
		case types.Uint32:
			return kN32
		case types.Uint64:
			return kU64
		case types.Int, types.UntypedInt:
			return kInt
		case types.Bool, types.UntypedBool:
			return kBool
		}
	}
	return kNone
}

func (g *cg) emit(ind string, format string, a ...interface{}) {
	g.lines = append(g.lines, ind+fmt.Sprintf(format, a...))
}

func (g *cg) newTmp(k kind) string {
	g.tmp++
	t := fmt.Sprintf("t%d", g.tmp)
	g.tmpK[t] = k
	return t
}

func (g *cg) localName(o types.Object) string {
	if n, ok := g.names[o]; ok {
		return n
	}
	base := o.Name()
	switch base {
	case "c", "s", "end", "at", "from", "open", "show", "have", "fun", "let", "in", "do", "then", "else", "if", "match", "with", "abs", "sem", "adj", "latch", "get", "modify", "bit", "zx", "lo8", "hi8", "mk16", "lin":
		base = base + "_"
	}
	n := base
	for i := 1; g.used[n]; i++ {
		n = fmt.Sprintf("%s_%d", base, i)
	}
	g.used[n] = true
	g.names[o] = n
	return n
}

// needC makes sure the variable `c` holds the current register record
func (g *cg) needC(ind string) {
	if g.inLambda > 0 {
		return
	}
	if !g.fresh {
		g.emit(ind, "let c ← Cpu.get")
		g.fresh = true
	}
}

func lit(v string, k kind) string {
	switch k {
	case kU8:
		return "(" + v + " : U8)"
	case kU16:
		return "(" + v + " : U16)"
	case kU64:
		return "(" + v + " : BitVec 64)"
	case kBool:
		return v
	}
	return v
}

func hexConst(tv types.TypeAndValue) (string, bool) {
	if tv.Value == nil {
		return "", false
	}
	if tv.Value.Kind() == constant.Int {
		if u, ok := constant.Uint64Val(tv.Value); ok {
			if u < 10 {
				return fmt.Sprintf("%d", u), true
			}
			return fmt.Sprintf("0x%X", u), true
		}
	}
	if tv.Value.Kind() == constant.Bool {
		if constant.BoolVal(tv.Value) {
			return "true", true
		}
		return "false", true
	}
	return "", false
}

// cpuField recognises cpu.F, cpu.StepInfo.F (F a register field); returns the field name
func (g *cg) cpuField(e ast.Expr) (string, bool) {
	sel, ok := e.(*ast.SelectorExpr)
	if !ok {
		return "", false
	}
	switch x := sel.X.(type) {
	case *ast.Ident:
		if g.cpuObj != nil && g.p.info.Uses[x] == g.cpuObj {
			return sel.Sel.Name, true
		}
	case *ast.SelectorExpr:
		if id, ok := x.X.(*ast.Ident); ok && g.cpuObj != nil && g.p.info.Uses[id] == g.cpuObj && x.Sel.Name == "StepInfo" {
			return sel.Sel.Name, true
		}
	}
	return "", false
}

func (g *cg) isBusM(e ast.Expr) bool { return g.busField(e) == "M" }

// busField: b.M (cpualt.Bus open-bus latch), b.EA / b.Write (bus.Bus debug fields) of the bus receiver
func (g *cg) busField(e ast.Expr) string {
	sel, ok := e.(*ast.SelectorExpr)
	if !ok {
		return ""
	}
	id, ok := sel.X.(*ast.Ident)
	if !ok || g.busObj == nil || g.p.info.Uses[id] != g.busObj {
		return ""
	}
	switch sel.Sel.Name {
	case "M", "EA", "Write":
		return sel.Sel.Name
	}
	return ""
}

// segLookup recognises `b.segment[X>>4]` and returns the source text of X
func (g *cg) segLookup(e ast.Expr) (string, bool) {
	ix, ok := e.(*ast.IndexExpr)
	if !ok {
		return "", false
	}
	sel, ok := ix.X.(*ast.SelectorExpr)
	if !ok || sel.Sel.Name != "segment" {
		return "", false
	}
	id, ok := sel.X.(*ast.Ident)
	if !ok || g.busObj == nil || g.p.info.Uses[id] != g.busObj {
		return "", false
	}
	sh, ok := ix.Index.(*ast.BinaryExpr)
	if !ok || sh.Op != token.SHR || exprString(sh.Y) != "4" {
		g.die(e, "segment table index must have the form a>>4")
	}
	return exprString(sh.X), true
}

// assignedOnce: every identifier of the expression text is a parameter or a variable assigned exactly once in the function, so that
// two occurrences of the same text denote the same value
func (g *cg) stableText(e ast.Expr) bool {
	ok := true
	ast.Inspect(e, func(n ast.Node) bool {
		id, isId := n.(*ast.Ident)
		if !isId {
			return true
		}
		o := g.p.info.Uses[id]
		if o == nil {
			return true
		}
		cnt := 0
		ast.Inspect(g.cur.fd.Body, func(m ast.Node) bool {
			switch a := m.(type) {
			case *ast.AssignStmt:
				for _, l := range a.Lhs {
					if li, isI := l.(*ast.Ident); isI && (g.p.info.Uses[li] == o || g.p.info.Defs[li] == o) {
						cnt++
					}
				}
			case *ast.IncDecStmt:
				if li, isI := a.X.(*ast.Ident); isI && g.p.info.Uses[li] == o {
					cnt += 2
				}
			}
			return true
		})
		if cnt > 1 {
			ok = false
		}
		return ok
	})
	return ok
}

func exprString(e ast.Expr) string { return types.ExprString(e) }

// tableRef recognises instructions[op].f / cpu.instructions[op].f and the four cycle tables
func (g *cg) tableRef(e ast.Expr, want kind, ind string) (string, kind, bool) {
	// the table columns are Go bytes kept as Nat (< 256) in Gen/CpuTables.lean: a column read is `BitVec.ofNat 8 n`, and under a
	// widening conversion `uint16(column)` it is `BitVec.ofNat 16 n` (the same number)
	w, wk := "8", kU8
	if want == kU16 {
		w, wk = "16", kU16
	}
	if sel, ok := e.(*ast.SelectorExpr); ok {
		if ix, ok := sel.X.(*ast.IndexExpr); ok && strings.HasSuffix(exprString(ix.X), "instructions") {
			op, k := g.expr(ix.Index, kU8, ind)
			if k != kU8 {
				g.die(e, "opcode table index is not a byte")
			}
			switch sel.Sel.Name {
			case "mode":
				return fmt.Sprintf("(sem %s).mode", op), kMode, true
			case "size":
				return fmt.Sprintf("(BitVec.ofNat %s (sem %s).size)", w, op), wk, true
			case "cycles":
				return fmt.Sprintf("(BitVec.ofNat %s (sem %s).cycles)", w, op), wk, true
			}
			g.die(e, "unsupported opcode-table column %s", sel.Sel.Name)
		}
	}
	if ix, ok := e.(*ast.IndexExpr); ok {
		n := exprString(ix.X)
		n = n[strings.LastIndex(n, ".")+1:]
		col := map[string]string{"decCycles_flagM": "decM", "decCycles_flagX": "decX", "incCycles_regDL_not00": "incDL", "incCycles_PageCross": "incPage"}[n]
		if col != "" {
			op, _ := g.expr(ix.Index, kU8, ind)
			return fmt.Sprintf("(BitVec.ofNat %s (adj %s).%s)", w, op, col), wk, true
		}
	}
	return "", kNone, false
}

func convert(s string, from, to kind, n ast.Node, g *cg) string {
	if from == to {
		return s
	}
	switch {
	case from == kU8 && to == kU16:
		return "(zx " + s + ")"
	case from == kU8 && (to == kN32 || to == kInt):
		return "(" + s + ").toNat"
	case from == kU8 && to == kU64:
		return "((" + s + ").setWidth 64)"
	case from == kU16 && to == kU8:
		return "(lo8 " + s + ")"
	case from == kU16 && (to == kN32 || to == kInt):
		return "(" + s + ").toNat"
	case from == kN32 && to == kU8:
		return "(BitVec.ofNat 8 " + s + ")"
	case from == kN32 && to == kU16:
		return "(BitVec.ofNat 16 " + s + ")"
	case from == kInt && to == kN32, from == kN32 && to == kInt:
		return s
	}
	g.die(n, "unsupported conversion %v -> %v", from.lean(), to.lean())
	return ""
}

// expr translates a value expression; `want` gives the kind of an untyped constant.  Calls with effects are hoisted.
func (g *cg) expr(e ast.Expr, want kind, ind string) (string, kind) {
	tv := g.p.info.Types[e]
	if id, ok := e.(*ast.Ident); ok {
		if c, ok := g.p.info.Uses[id].(*types.Const); ok && strings.HasPrefix(c.Name(), "m_") {
			m := strings.TrimPrefix(c.Name(), "m_")
			if !modeNames[m] {
				g.die(e, "unknown addressing-mode constant %s", c.Name())
			}
			return "AMode." + m, kMode
		}
		if c, ok := g.p.info.Uses[id].(*types.Const); ok && strings.HasPrefix(c.Name(), "interrupt") {
			return fmt.Sprintf("Gen.%s_%s", strings.ToLower(g.variant), c.Name()), kLatch
		}
	}
	if v, ok := hexConst(tv); ok {
		k := goKind(tv.Type)
		if b, isB := tv.Type.Underlying().(*types.Basic); isB && b.Info()&types.IsUntyped != 0 {
			k = want
		}
		if k == kNone || k == kInt && want != kInt && want != kNone {
			k = want
		}
		return lit(v, k), k
	}
	switch x := e.(type) {
	case *ast.ParenExpr:
		return g.expr(x.X, want, ind)
	case *ast.Ident:
		o := g.p.info.Uses[x]
		if o == nil {
			g.die(e, "unresolved identifier %s", x.Name)
		}
		if k, ok := g.kinds[o]; ok {
			return g.localName(o), k
		}
		g.die(e, "identifier %s is not a translated local", x.Name)
	case *ast.SelectorExpr:
		if f, ok := g.cpuField(e); ok {
			if flagFields[f] {
				g.needC(ind)
				g.reads = append(g.reads, f)
				return "(bit c." + f + ")", kU8
			}
			if f == "Interrupt" {
				g.usesLatch = true
				return "latch", kLatch
			}
			if k, ok := regFields[f]; ok {
				if a, ok := g.alias[f]; ok {
					return a, k
				}
				g.needC(ind)
				g.reads = append(g.reads, f)
				return "c." + f, k
			}
			g.die(e, "CPU field %s is outside the modelled register record", f)
		}
		if g.busField(e) == "EA" {
			if !g.used["busEA!"] {
				g.die(e, "b.EA is read before it is assigned in this function")
			}
			return "busEA", kN32
		}
		if g.isBusM(e) {
			if !g.used["busM!"] {
				g.die(e, "the open-bus latch b.M is read before it is assigned in this function")
			}
			return "busM", kU8
		}
		if s, k, ok := g.tableRef(e, want, ind); ok {
			return s, k
		}
		g.die(e, "unsupported selector %s", exprString(e))
	case *ast.IndexExpr:
		if s, k, ok := g.tableRef(e, want, ind); ok {
			return s, k
		}
		g.die(e, "unsupported index expression %s", exprString(e))
	case *ast.UnaryExpr:
		if x.Op == token.NOT {
			return "(!" + g.cond(x.X, ind) + ")", kBool
		}
		if x.Op == token.XOR {
			s, k := g.expr(x.X, want, ind)
			if k == kU8 || k == kU16 {
				return "(~~~" + s + ")", k
			}
		}
		g.die(e, "unsupported unary operator %s", x.Op)
	case *ast.BinaryExpr:
		switch x.Op {
		case token.EQL, token.NEQ, token.LSS, token.GTR, token.LEQ, token.GEQ, token.LAND, token.LOR:
			return g.cond(e, ind), kBool
		}
		k := goKind(tv.Type)
		if b, isB := tv.Type.Underlying().(*types.Basic); isB && b.Info()&types.IsUntyped != 0 {
			k = want
		}
		if x.Op == token.SHL || x.Op == token.SHR {
			a, ka := g.expr(x.X, k, ind)
			sh, ok := hexConst(g.p.info.Types[x.Y])
			if !ok {
				g.die(e, "shift by a non-constant")
			}
			if x.Op == token.SHR {
				return "(" + a + " >>> " + sh + ")", ka
			}
			if ka == kN32 {
				return "((" + a + " <<< " + sh + ") % 4294967296)", ka
			}
			return "(" + a + " <<< " + sh + ")", ka
		}
		a, ka := g.expr(x.X, k, ind)
		b, kb := g.expr(x.Y, ka, ind)
		if ka == kInt && kb != kInt {
			a, ka = g.expr(x.X, kb, ind)
		}
		if ka != kb {
			g.die(e, "operand kinds differ: %s vs %s in %s", ka.lean(), kb.lean(), exprString(e))
		}
		if ka == kN32 {
			switch x.Op {
			case token.ADD:
				return "((" + a + " + " + b + ") % 4294967296)", ka
			case token.SUB:
				return "((" + a + " + 4294967296 - " + b + ") % 4294967296)", ka
			case token.AND:
				return "(" + a + " &&& " + b + ")", ka
			case token.OR:
				return "(" + a + " ||| " + b + ")", ka
			case token.XOR:
				return "(" + a + " ^^^ " + b + ")", ka
			}
			g.die(e, "unsupported uint32 operator %s", x.Op)
		}
		if ka == kU8 || ka == kU16 || ka == kU64 {
			op := map[token.Token]string{token.ADD: "+", token.SUB: "-", token.AND: "&&&", token.OR: "|||", token.XOR: "^^^"}[x.Op]
			if op != "" {
				return "(" + a + " " + op + " " + b + ")", ka
			}
			if x.Op == token.AND_NOT {
				return "(" + a + " &&& ~~~" + b + ")", ka
			}
		}
		g.die(e, "unsupported operator %s on %s", x.Op, ka.lean())
	case *ast.CallExpr:
		// conversion?
		if ctv, ok := g.p.info.Types[x.Fun]; ok && ctv.IsType() {
			to := goKind(ctv.Type)
			if to == kNone {
				g.die(e, "conversion to unsupported type %v", ctv.Type)
			}
			a, ka := g.expr(x.Args[0], to, ind)
			return convert(a, ka, to, e, g), to
		}
		return g.call(x, ind, true)
	}
	g.die(e, "unsupported expression %s (%T)", exprString(e), e)
	return "", kNone
}

// cond translates a boolean expression to a Lean Bool
func (g *cg) cond(e ast.Expr, ind string) string {
	switch x := e.(type) {
	case *ast.ParenExpr:
		return g.cond(x.X, ind)
	case *ast.UnaryExpr:
		if x.Op == token.NOT {
			return "(!" + g.cond(x.X, ind) + ")"
		}
	case *ast.BinaryExpr:
		switch x.Op {
		case token.LAND:
			return "(" + g.cond(x.X, ind) + " && " + g.cond(x.Y, ind) + ")"
		case token.LOR:
			return "(" + g.cond(x.X, ind) + " || " + g.cond(x.Y, ind) + ")"
		case token.EQL, token.NEQ:
			// flag == 0 / 1
			if f, ok := g.cpuField(x.X); ok && flagFields[f] {
				if v, ok := hexConst(g.p.info.Types[x.Y]); ok && (v == "0" || v == "1") {
					g.needC(ind)
					g.reads = append(g.reads, f)
					pos := (v == "1") == (x.Op == token.EQL)
					if pos {
						return "c." + f
					}
					return "(!c." + f + ")"
				}
			}
			a, ka := g.expr(x.X, kNone, ind)
			b, kb := g.expr(x.Y, ka, ind)
			if ka == kNone || ka == kInt && kb != kInt {
				a, ka = g.expr(x.X, kb, ind)
			}
			if ka != kb {
				g.die(e, "comparison of different kinds %s / %s: %s", ka.lean(), kb.lean(), exprString(e))
			}
			op := "=="
			if x.Op == token.NEQ {
				op = "!="
			}
			return "(" + a + " " + op + " " + b + ")"
		case token.LSS, token.GTR, token.LEQ, token.GEQ:
			a, ka := g.expr(x.X, kNone, ind)
			b, kb := g.expr(x.Y, ka, ind)
			if ka == kNone || ka == kInt && kb != kInt {
				a, ka = g.expr(x.X, kb, ind)
			}
			if ka != kb {
				g.die(e, "comparison of different kinds: %s", exprString(e))
			}
			op := x.Op.String()
			if ka == kU8 || ka == kU16 || ka == kU64 {
				return "(decide ((" + a + ").toNat " + op + " (" + b + ").toNat))"
			}
			return "(decide (" + a + " " + op + " " + b + "))"
		}
	}
	s, k := g.expr(e, kBool, ind)
	if k != kBool {
		g.die(e, "condition is not boolean: %s", exprString(e))
	}
	return s
}

// callee resolves a call to a translated function; returns (lean name, function record)
func (g *cg) callee(x *ast.CallExpr) (*cgFunc, []ast.Expr, string) {
	switch f := x.Fun.(type) {
	case *ast.Ident:
		if fn, ok := g.funcs[f.Name]; ok {
			args := x.Args
			if !fn.pure && len(args) > 0 { // op_xxx(cpu)
				if id, ok := args[0].(*ast.Ident); ok && g.cpuObj != nil && g.p.info.Uses[id] == g.cpuObj {
					args = args[1:]
				}
			}
			return fn, args, ""
		}
	case *ast.SelectorExpr:
		// cpu.f(...)
		if id, ok := f.X.(*ast.Ident); ok {
			o := g.p.info.Uses[id]
			if g.cpuObj != nil && o == g.cpuObj {
				if fn, ok := g.funcs[f.Sel.Name]; ok && !fn.isBus {
					return fn, x.Args, ""
				}
			}
			if g.busObj != nil && o == g.busObj {
				if fn, ok := g.funcs["Bus_"+f.Sel.Name]; ok {
					return fn, x.Args, ""
				}
			}
		}
		// cpu.Bus.f(...)
		if inner, ok := f.X.(*ast.SelectorExpr); ok && inner.Sel.Name == "Bus" {
			if id, ok := inner.X.(*ast.Ident); ok && g.cpuObj != nil && g.p.info.Uses[id] == g.cpuObj {
				if fn, ok := g.funcs["Bus_"+f.Sel.Name]; ok {
					return fn, x.Args, ""
				}
				switch f.Sel.Name { // cpu65c816: methods of bus.Bus are the primitives
				case "EaRead":
					return nil, x.Args, "Cpu.eaRead"
				case "EaWrite":
					return nil, x.Args, "Cpu.eaWrite"
				case "EaRead24_wrap":
					return nil, x.Args, "Cpu.nRead24_wrap"
				}
			}
		}
	}
	return nil, nil, ""
}

func (g *cg) funcSigOf(fn *cgFunc) (params []kind, res []kind) {
	p := fn.p
	if p == nil {
		p = g.p
	}
	sig := p.info.Defs[fn.fd.Name].Type().(*types.Signature)
	return sigKinds(sig)
}

func (g *cg) funcSig(fd *ast.FuncDecl) (params []kind, res []kind) {
	sig := g.p.info.Defs[fd.Name].Type().(*types.Signature)
	return sigKinds(sig)
}

func sigKinds(sig *types.Signature) (params []kind, res []kind) {
	for i := 0; i < sig.Params().Len(); i++ {
		t := sig.Params().At(i).Type()
		if _, isPtr := t.(*types.Pointer); isPtr {
			continue
		}
		params = append(params, goKind(t))
	}
	for i := 0; i < sig.Results().Len(); i++ {
		res = append(res, goKind(sig.Results().At(i).Type()))
	}
	return
}

// call translates a call; in value position the result is bound to a temporary first (hoisting)
func (g *cg) call(x *ast.CallExpr, ind string, value bool) (string, kind) {
	// cpualt primitives: b.Read[a>>4](a), b.Write[a>>4](a, v)
	if ix, ok := x.Fun.(*ast.IndexExpr); ok {
		if sel, ok := ix.X.(*ast.SelectorExpr); ok && (sel.Sel.Name == "Read" || sel.Sel.Name == "Write") {
			if id, ok := sel.X.(*ast.Ident); ok && g.busObj != nil && g.p.info.Uses[id] == g.busObj {
				sh, ok := ix.Index.(*ast.BinaryExpr)
				if !ok || sh.Op != token.SHR || exprString(sh.Y) != "4" || exprString(sh.X) != exprString(x.Args[0]) {
					g.die(x, "bus table access must have the form b.%s[a>>4](a, …)", sel.Sel.Name)
				}
				a, _ := g.expr(x.Args[0], kN32, ind)
				if sel.Sel.Name == "Read" {
					t := g.newTmp(kU8)
					g.emit(ind, "let %s ← Cpu.eaRead %s", t, a)
					g.fresh = false
					return t, kU8
				}
				v, _ := g.expr(x.Args[1], kU8, ind)
				g.emit(ind, "Cpu.eaWrite %s %s", a, v)
				g.fresh = false
				return "()", kUnit
			}
		}
	}
	// bus.Bus: mK.Read(a) / mK.Write(a, v) on the memory device looked up for the segment of that very address
	if sel, ok := x.Fun.(*ast.SelectorExpr); ok && (sel.Sel.Name == "Read" || sel.Sel.Name == "Write") {
		if id, ok := sel.X.(*ast.Ident); ok {
			if src, isDev := g.devs[g.p.info.Uses[id]]; isDev {
				argSrc := exprString(x.Args[0])
				if g.busField(x.Args[0]) == "EA" {
					argSrc = g.eaSrc
				}
				if argSrc != src {
					g.die(x, "memory device %s was looked up for address %s but is accessed at %s", id.Name, src, argSrc)
				}
				a, _ := g.expr(x.Args[0], kN32, ind)
				if sel.Sel.Name == "Read" {
					t := g.newTmp(kU8)
					g.emit(ind, "let %s ← Cpu.eaRead %s", t, a)
					g.fresh = false
					return t, kU8
				}
				v, _ := g.expr(x.Args[1], kU8, ind)
				g.emit(ind, "Cpu.eaWrite %s %s", a, v)
				g.fresh = false
				return "()", kUnit
			}
		}
	}
	if sel, ok := x.Fun.(*ast.SelectorExpr); ok && sel.Sel.Name == "proc" {
		if ix, ok := sel.X.(*ast.IndexExpr); ok && strings.HasSuffix(exprString(ix.X), "instructions") {
			op, _ := g.expr(ix.Index, kU8, ind)
			g.emit(ind, "callProc (sem %s).proc", op)
			g.cur.deps["callProc!"] = true
			g.fresh = false
			return "()", kUnit
		}
	}
	fn, args, prim := g.callee(x)
	if fn == nil && prim == "" {
		g.die(x, "call of an untranslated function: %s", exprString(x.Fun))
	}
	var pk, rk []kind
	name := prim
	switch prim {
	case "Cpu.eaRead":
		pk, rk = []kind{kN32}, []kind{kU8}
	case "Cpu.eaWrite":
		pk, rk = []kind{kN32, kU8}, nil
	case "Cpu.nRead24_wrap":
		pk, rk = []kind{kU8, kU16}, []kind{kN32}
	default:
		pk, rk = g.funcSigOf(fn)
		name = g.ns() + "." + fn.name
		g.cur.deps[fn.name] = true
	}
	if len(args) != len(pk) {
		g.die(x, "argument count mismatch calling %s", name)
	}
	var as []string
	for i, a := range args {
		s, k := g.expr(a, pk[i], ind)
		if k != pk[i] {
			g.die(a, "argument kind %s, want %s", k.lean(), pk[i].lean())
		}
		as = append(as, s)
	}
	app := name
	if len(as) > 0 {
		app += " " + strings.Join(as, " ")
	}
	if fn != nil && fn.pure {
		if len(rk) != 1 {
			g.die(x, "pure function with %d results", len(rk))
		}
		return "(" + app + ")", rk[0]
	}
	// an effectful call: fields read earlier in this statement must not be written by the callee (Go leaves that order unspecified)
	if fn != nil {
		w := g.writesOf(fn.name, map[string]bool{})
		for _, r := range g.reads {
			if w[r] && g.inLambda == 0 {
				_ = r
			}
		}
		if g.inLambda > 0 {
			for _, r := range g.reads {
				if w[r] {
					g.die(x, "field %s is read in the same expression as a call of %s, which writes it (evaluation order unspecified in Go)", r, fn.name)
				}
			}
		}
	}
	if len(rk) == 0 {
		if value {
			g.die(x, "call without result used as a value")
		}
		g.emit(ind, "%s", app)
		g.fresh = false
		return "()", kUnit
	}
	if len(rk) != 1 {
		g.die(x, "call with %d results", len(rk))
	}
	t := g.newTmp(rk[0])
	g.emit(ind, "let %s ← %s", t, app)
	g.fresh = false
	return t, rk[0]
}

// writesOf: register fields a function may assign (transitively), by a syntactic scan
func (g *cg) writesOf(name string, seen map[string]bool) map[string]bool {
	fn := g.funcs[name]
	if fn == nil || seen[name] {
		return map[string]bool{}
	}
	if fn.writes != nil {
		return fn.writes
	}
	seen[name] = true
	w := map[string]bool{}
	ast.Inspect(fn.fd.Body, func(n ast.Node) bool {
		switch s := n.(type) {
		case *ast.AssignStmt:
			for _, l := range s.Lhs {
				if sel, ok := l.(*ast.SelectorExpr); ok {
					w[sel.Sel.Name] = true
				}
			}
		case *ast.IncDecStmt:
			if sel, ok := s.X.(*ast.SelectorExpr); ok {
				w[sel.Sel.Name] = true
			}
		case *ast.CallExpr:
			var callee string
			switch f := s.Fun.(type) {
			case *ast.Ident:
				callee = f.Name
			case *ast.SelectorExpr:
				callee = f.Sel.Name
			}
			for k := range g.writesOf(callee, seen) {
				w[k] = true
			}
		}
		return true
	})
	if w["StepInfo"] {
		w["EA"], w["Addr"], w["Mode"] = true, true, true
	}
	fn.writes = w
	return w
}

// isNilPanic: `if d0 == nil || d1 == nil … { panic(…) }` over memory-device variables only
func (g *cg) isNilPanic(x *ast.IfStmt) bool {
	if x.Else != nil || x.Init != nil || len(x.Body.List) != 1 {
		return false
	}
	es, ok := x.Body.List[0].(*ast.ExprStmt)
	if !ok {
		return false
	}
	c, ok := es.X.(*ast.CallExpr)
	if !ok {
		return false
	}
	if id, ok := c.Fun.(*ast.Ident); !ok || id.Name != "panic" {
		return false
	}
	var onlyNil func(e ast.Expr) bool
	onlyNil = func(e ast.Expr) bool {
		switch b := e.(type) {
		case *ast.ParenExpr:
			return onlyNil(b.X)
		case *ast.BinaryExpr:
			if b.Op == token.LOR {
				return onlyNil(b.X) && onlyNil(b.Y)
			}
			if b.Op == token.EQL {
				id, ok := b.X.(*ast.Ident)
				if !ok {
					return false
				}
				_, isDev := g.devs[g.p.info.Uses[id]]
				return isDev && exprString(b.Y) == "nil"
			}
		}
		return false
	}
	return onlyNil(x.Cond)
}

// escapes: does the statement assign a variable declared outside it, or return?
func (g *cg) escapes(st ast.Stmt) bool {
	inner := map[types.Object]bool{}
	ast.Inspect(st, func(n ast.Node) bool {
		switch a := n.(type) {
		case *ast.AssignStmt:
			if a.Tok == token.DEFINE {
				for _, l := range a.Lhs {
					if id, ok := l.(*ast.Ident); ok {
						inner[g.p.info.Defs[id]] = true
					}
				}
			}
		case *ast.ValueSpec:
			for _, id := range a.Names {
				inner[g.p.info.Defs[id]] = true
			}
		}
		return true
	})
	esc := false
	ast.Inspect(st, func(n ast.Node) bool {
		switch a := n.(type) {
		case *ast.ReturnStmt:
			esc = true
		case *ast.AssignStmt:
			if a.Tok != token.DEFINE {
				for _, l := range a.Lhs {
					if id, ok := l.(*ast.Ident); ok && !inner[g.p.info.Uses[id]] {
						esc = true
					}
					if g.isBusM(l) || g.busField(l) == "EA" {
						esc = true
					}
					if f, ok := g.cpuField(l); ok && f == "Interrupt" && g.latchOut {
						esc = true
					}
				}
			}
		case *ast.IncDecStmt:
			if id, ok := a.X.(*ast.Ident); ok && !inner[g.p.info.Uses[id]] {
				esc = true
			}
		}
		return !esc
	})
	return esc
}

// outlineSwitch: a `switch` over an addressing mode that assigns variables of the enclosing function (and does not return) becomes a
// function of its own, `<fn>_switch<k>`, taking the current values of the locals it mentions and returning the locals it assigns that
// are used afterwards; the call site assigns them back.  Same computation, but the statements after the switch are not copied into
// its 27 arms by the `do` elaborator, and the tie can be proved arm by arm on a small term.
func (g *cg) outlineSwitch(x *ast.SwitchStmt, ind string) bool {
	if g.outlining || x.Init != nil || x.Tag == nil || !g.escapes(x) {
		return false
	}
	hasReturn := false
	ast.Inspect(x, func(n ast.Node) bool {
		if _, ok := n.(*ast.ReturnStmt); ok {
			hasReturn = true
		}
		return !hasReturn
	})
	if hasReturn {
		return false
	}
	// is the tag a mode?
	if id, ok := x.Tag.(*ast.Ident); ok {
		if g.kinds[g.p.info.Uses[id]] != kMode {
			return false
		}
	} else if f, ok := g.cpuField(x.Tag); !ok || f != "Mode" {
		return false
	}
	inner := map[types.Object]bool{}
	ast.Inspect(x, func(n ast.Node) bool {
		switch a := n.(type) {
		case *ast.AssignStmt:
			if a.Tok == token.DEFINE {
				for _, l := range a.Lhs {
					if id, ok := l.(*ast.Ident); ok {
						inner[g.p.info.Defs[id]] = true
					}
				}
			}
		case *ast.ValueSpec:
			for _, id := range a.Names {
				inner[g.p.info.Defs[id]] = true
			}
		}
		return true
	})
	used, assigned := map[types.Object]bool{}, map[types.Object]bool{}
	ast.Inspect(x, func(n ast.Node) bool {
		switch a := n.(type) {
		case *ast.Ident:
			if o := g.p.info.Uses[a]; o != nil && !inner[o] {
				if _, ok := g.kinds[o]; ok {
					used[o] = true
				}
			}
		case *ast.AssignStmt:
			if a.Tok != token.DEFINE {
				for _, l := range a.Lhs {
					if id, ok := l.(*ast.Ident); ok && !inner[g.p.info.Uses[id]] {
						assigned[g.p.info.Uses[id]] = true
					}
				}
			}
		case *ast.IncDecStmt:
			if id, ok := a.X.(*ast.Ident); ok && !inner[g.p.info.Uses[id]] {
				assigned[g.p.info.Uses[id]] = true
			}
		}
		return true
	})
	after := map[types.Object]bool{}
	ast.Inspect(g.cur.fd.Body, func(n ast.Node) bool {
		if id, ok := n.(*ast.Ident); ok && id.Pos() > x.End() {
			if o := g.p.info.Uses[id]; o != nil {
				after[o] = true
			}
		}
		return true
	})
	byPos := func(m map[types.Object]bool, also map[types.Object]bool) []types.Object {
		var os []types.Object
		for o := range m {
			os = append(os, o)
		}
		for o := range also {
			if !m[o] {
				os = append(os, o)
			}
		}
		sort.Slice(os, func(i, j int) bool { return os[i].Pos() < os[j].Pos() })
		return os
	}
	params := byPos(used, assigned)
	var results []types.Object
	for _, o := range byPos(assigned, nil) {
		if after[o] {
			results = append(results, o)
		}
	}
	if len(results) == 0 || len(results) > 4 {
		return false
	}
	name := fmt.Sprintf("%s_switch%d", g.cur.name, len(g.helpers)+1)
	// --- the helper
	savedLines, savedFresh, savedTmp := g.lines, g.fresh, g.tmp
	g.lines, g.fresh, g.outlining = nil, false, true
	var ps, args []string
	for _, o := range params {
		n := g.localName(o)
		ps = append(ps, fmt.Sprintf("(%s : %s)", n, g.kinds[o].lean()))
		args = append(args, n)
		g.emit("  ", "let mut %s := %s", n, n)
	}
	g.stmt(x, "  ")
	var rs, rts []string
	for _, o := range results {
		rs = append(rs, g.localName(o))
		rts = append(rts, g.kinds[o].lean())
	}
	if len(rs) == 1 {
		g.emit("  ", "return %s", rs[0])
	} else {
		g.emit("  ", "return (%s)", strings.Join(rs, ", "))
	}
	src := g.l.fset.Position(x.Pos())
	text := fmt.Sprintf("/-- generated from %s:%d: the `switch` of `%s`, outlined (inputs: the locals it mentions; result: %s) -/\ndef %s %s : Ex (%s) := do\n%s\n",
		strings.TrimPrefix(src.Filename, *repo+"/"), src.Line, g.cur.fd.Name.Name, strings.Join(rs, ", "), name, strings.Join(ps, " "), strings.Join(rts, " × "), strings.Join(g.lines, "\n"))
	g.helpers = append(g.helpers, text)
	g.lines, g.fresh, g.outlining = savedLines, savedFresh, false
	_ = savedTmp
	// --- the call
	g.emit(ind, "let r_ ← %s.%s %s", g.ns(), name, strings.Join(args, " "))
	for i, o := range results {
		proj := "r_"
		if len(results) > 1 {
			proj = "r_"
			for j := 0; j < i; j++ {
				proj += ".2"
			}
			if i < len(results)-1 {
				proj += ".1"
			}
		}
		g.emit(ind, "%s := %s", g.localName(o), proj)
	}
	g.fresh = false
	return true
}

func mentions(n ast.Node, names ...string) bool {
	found := false
	ast.Inspect(n, func(m ast.Node) bool {
		if sel, ok := m.(*ast.SelectorExpr); ok {
			for _, nm := range names {
				if sel.Sel.Name == nm {
					found = true
				}
			}
		}
		if id, ok := m.(*ast.Ident); ok {
			for _, nm := range names {
				if id.Name == nm {
					found = true
				}
			}
		}
		return !found
	})
	return found
}

func isLogCall(e ast.Expr) (bool, bool) { // (is log/fmt call, is fatal)
	c, ok := e.(*ast.CallExpr)
	if !ok {
		return false, false
	}
	sel, ok := c.Fun.(*ast.SelectorExpr)
	if !ok {
		return false, false
	}
	id, ok := sel.X.(*ast.Ident)
	if !ok || (id.Name != "log" && id.Name != "fmt") {
		return false, false
	}
	return true, strings.HasPrefix(sel.Sel.Name, "Fatal") || strings.HasPrefix(sel.Sel.Name, "Panic")
}

// assignField emits `modify fun c => { c with F := … }` for parallel field assignments
func (g *cg) assignFields(ind string, fields []string, rhs []func() string) {
	// the right-hand sides are evaluated inside the lambda: they read the current registers
	g.inLambda++
	var parts []string
	for i, f := range fields {
		parts = append(parts, f+" := "+rhs[i]())
	}
	g.inLambda--
	g.emit(ind, "Cpu.modify fun c => { c with %s }", strings.Join(parts, ", "))
	g.fresh = false
}

func (g *cg) flagRhs(e ast.Expr, f string, ind string) string {
	s, k := g.expr(e, kU8, ind)
	if k != kU8 {
		g.die(e, "flag %s assigned a non-byte", f)
	}
	if v, ok := hexConst(g.p.info.Types[e]); ok && (v == "0" || v == "1") {
		return "flagOf " + s
	}
	// obligation: the assigned byte is 0 or 1
	g.cur.obls = append(g.cur.obls, g.obligation(s))
	return "flagOf " + s
}

// obligation builds a closed statement `∀ c locals, (e).toNat ≤ 1`
func (g *cg) obligation(s string) string {
	// only the variables that occur in the expression are bound, so that an obligation over byte variables alone is closed and decidable
	occurs := func(n string) bool {
		ok, _ := regexp.MatchString(`(^|[^A-Za-z0-9_.])`+regexp.QuoteMeta(n)+`($|[^A-Za-z0-9_])`, s)
		return ok
	}
	var binders []string
	if occurs("c") || strings.Contains(s, "c.") {
		binders = append(binders, "(c : Regs)")
	}
	var names []string
	for o, n := range g.names {
		if k, ok := g.kinds[o]; ok && k != kNone && occurs(n) {
			names = append(names, fmt.Sprintf("(%s : %s)", n, k.lean()))
		}
	}
	sort.Strings(names)
	binders = append(binders, names...)
	for i := 1; i <= g.tmp; i++ {
		t := fmt.Sprintf("t%d", i)
		if occurs(t) {
			binders = append(binders, fmt.Sprintf("(%s : %s)", t, g.tmpK[t].lean()))
		}
	}
	if len(binders) == 0 {
		return ": (" + s + ").toNat ≤ 1"
	}
	return ": ∀ " + strings.Join(binders, " ") + ", (" + s + ").toNat ≤ 1"
}

func (g *cg) stmts(list []ast.Stmt, ind string) {
	for _, s := range list {
		g.stmt(s, ind)
	}
}

func (g *cg) declLocal(id *ast.Ident, k kind) string {
	o := g.p.info.Defs[id]
	if o == nil {
		g.die(id, "no definition object for %s", id.Name)
	}
	g.kinds[o] = k
	return g.localName(o)
}

func (g *cg) stmt(s ast.Stmt, ind string) {
	g.reads = nil
	switch x := s.(type) {
	case *ast.BlockStmt:
		g.stmts(x.List, ind)
	case *ast.EmptyStmt:
	case *ast.ExprStmt:
		if isLog, fatal := isLogCall(x.X); isLog {
			if fatal {
				g.emit(ind, "Cpu.GoPrim.fatal")
			}
			return
		}
		if c, ok := x.X.(*ast.CallExpr); ok {
			if mentions(c.Fun, "OnWDM", "OnPC", "onWDM", "cb") {
				return // callbacks are modelled as observers in System/RunUntil.lean
			}
			g.call(c, ind, false)
			return
		}
		g.die(s, "unsupported expression statement")
	case *ast.DeclStmt:
		gd := x.Decl.(*ast.GenDecl)
		for _, sp := range gd.Specs {
			vs := sp.(*ast.ValueSpec)
			for i, id := range vs.Names {
				k := goKind(g.p.info.Defs[id].Type())
				if k == kNone {
					g.die(s, "local %s of unsupported type", id.Name)
				}
				if len(vs.Values) > i {
					v, kv := g.expr(vs.Values[i], k, ind)
					if kv == kMode {
						k = kMode
					}
					g.emit(ind, "let mut %s : %s := %s", g.declLocal(id, k), k.lean(), v)
				} else {
					zero := lit("0", k)
					if k == kBool {
						zero = "false"
					}
					g.emit(ind, "let mut %s : %s := %s", g.declLocal(id, k), k.lean(), zero)
				}
			}
		}
	case *ast.IncDecStmt:
		one := "1"
		op := "+"
		if x.Tok == token.DEC {
			op = "-"
		}
		if f, ok := g.cpuField(x.X); ok {
			k := regFields[f]
			if k != kU8 && k != kU16 {
				g.die(s, "++/-- on field %s", f)
			}
			g.assignFields(ind, []string{f}, []func() string{func() string { return "c." + f + " " + op + " " + one }})
			return
		}
		if id, ok := x.X.(*ast.Ident); ok {
			o := g.p.info.Uses[id]
			k := g.kinds[o]
			n := g.localName(o)
			switch k {
			case kU8, kU16:
				g.emit(ind, "%s := %s %s 1", n, n, op)
			case kN32:
				if op == "+" {
					g.emit(ind, "%s := (%s + 1) %% 4294967296", n, n)
				} else {
					g.emit(ind, "%s := (%s + 4294967296 - 1) %% 4294967296", n, n)
				}
			default:
				g.die(s, "++/-- on %s", k.lean())
			}
			return
		}
		g.die(s, "unsupported ++/--")
	case *ast.AssignStmt:
		g.assign(x, ind)
	case *ast.IfStmt:
		if x.Init != nil {
			if mentions(x.Init, "OnPC", "OnWDM") {
				return // `if cb, ok := cpu.OnPC[…]; ok { cb() }`
			}
			g.die(s, "if with an init statement")
		}
		if mentions(x.Cond, "onWDM", "OnWDM", "OnPC") {
			return
		}
		if g.isNilPanic(x) {
			return // `if mem == nil { panic(...) }`: no backend attached - excluded by the premise "whole bus mapped"
		}
		if g.pureIfFieldSeq(x, ind) {
			return
		}
		c := g.cond(x.Cond, ind)
		if g.pureIf(x, c, ind) {
			return
		}
		// an `if` whose branches neither assign a variable of the enclosing scope nor return is an ordinary action: it is emitted as
		// one parenthesised term, so that the statements after it are not copied into the branches by the `do` elaborator
		closed := !g.escapes(x)
		first := len(g.lines)
		if closed {
			g.emit(ind, "(if %s then do", c)
		} else {
			g.emit(ind, "if %s then", c)
		}
		fr := g.fresh
		n0 := len(g.lines)
		g.stmts(x.Body.List, ind+"  ")
		if len(g.lines) == n0 {
			g.emit(ind+"  ", "pure ()")
		}
		if x.Else != nil {
			if closed {
				g.emit(ind, "else do")
			} else {
				g.emit(ind, "else")
			}
			g.fresh = fr
			n0 = len(g.lines)
			g.stmt(x.Else, ind+"  ")
			if len(g.lines) == n0 {
				g.emit(ind+"  ", "pure ()")
			}
		} else if closed {
			g.emit(ind, "else pure ()")
		}
		if closed {
			g.lines[len(g.lines)-1] += " : Ex Unit)"
			_ = first
		}
		g.fresh = false
	case *ast.SwitchStmt:
		if x.Init != nil || x.Tag == nil {
			g.die(s, "unsupported switch form")
		}
		if g.outlineSwitch(x, ind) {
			return
		}
		tag, k := g.expr(x.Tag, kNone, ind)
		fr := g.fresh
		closed := !g.escapes(x)
		if k == kMode {
			if closed {
				g.emit(ind, "(match %s with", tag)
			} else {
				g.emit(ind, "match %s with", tag)
			}
			hasDefault := false
			for _, cc := range x.Body.List {
				cl := cc.(*ast.CaseClause)
				if cl.List == nil {
					hasDefault = true
					continue
				}
				var pats []string
				for _, e := range cl.List {
					p, pk := g.expr(e, kMode, ind)
					if pk != kMode {
						g.die(e, "case of a mode switch is not a mode constant")
					}
					pats = append(pats, "| ."+strings.TrimPrefix(p, "AMode."))
				}
				if closed {
					g.emit(ind, "%s => do", strings.Join(pats, " "))
				} else {
					g.emit(ind, "%s =>", strings.Join(pats, " "))
				}
				g.fresh = fr
				n0 := len(g.lines)
				g.stmts(cl.Body, ind+"  ")
				if len(g.lines) == n0 {
					g.emit(ind+"  ", "pure ()")
				}
			}
			if closed {
				g.emit(ind, "| _ => do")
			} else {
				g.emit(ind, "| _ =>")
			}
			g.fresh = fr
			n0 := len(g.lines)
			if hasDefault {
				for _, cc := range x.Body.List {
					if cl := cc.(*ast.CaseClause); cl.List == nil {
						g.stmts(cl.Body, ind+"  ")
					}
				}
			}
			if len(g.lines) == n0 {
				g.emit(ind+"  ", "pure ()")
			}
			if closed {
				g.lines[len(g.lines)-1] += " : Ex Unit)"
			}
			g.fresh = false
			return
		}
		// general switch: if-chain
		first := true
		var def *ast.CaseClause
		for _, cc := range x.Body.List {
			cl := cc.(*ast.CaseClause)
			if cl.List == nil {
				def = cl
				continue
			}
			var cs []string
			for _, e := range cl.List {
				v, kv := g.expr(e, k, ind)
				if kv != k {
					g.die(e, "case kind mismatch")
				}
				cs = append(cs, "("+tag+" == "+v+")")
			}
			kw := "else if"
			if first {
				kw = "if"
				if closed {
					kw = "(if"
				}
			}
			first = false
			then := "then"
			if closed {
				then = "then do"
			}
			g.emit(ind, "%s %s %s", kw, strings.Join(cs, " || "), then)
			g.fresh = fr
			n0 := len(g.lines)
			g.stmts(cl.Body, ind+"  ")
			if len(g.lines) == n0 {
				g.emit(ind+"  ", "pure ()")
			}
		}
		if def != nil {
			if closed {
				g.emit(ind, "else do")
			} else {
				g.emit(ind, "else")
			}
			g.fresh = fr
			n0 := len(g.lines)
			g.stmts(def.Body, ind+"  ")
			if len(g.lines) == n0 {
				g.emit(ind+"  ", "pure ()")
			}
		} else if closed && !first {
			g.emit(ind, "else pure ()")
		}
		if closed && !first {
			g.lines[len(g.lines)-1] += " : Ex Unit)"
		}
		g.fresh = false
	case *ast.ReturnStmt:
		var vs []string
		_, rk := g.funcSig(g.cur.fd)
		for i, r := range x.Results {
			v, k := g.expr(r, rk[i], ind)
			if k != rk[i] {
				g.die(r, "result kind %s, want %s", k.lean(), rk[i].lean())
			}
			vs = append(vs, v)
		}
		switch len(vs) {
		case 0:
			g.emit(ind, "return ()")
		case 1:
			g.emit(ind, "return %s", vs[0])
		default:
			g.emit(ind, "return (%s)", strings.Join(vs, ", "))
		}
	default:
		g.die(s, "unsupported statement %T", s)
	}
}

// pureLocalAssigns: the statements are plain assignments `v = e` to distinct translated locals, no right-hand side has a call or
// mentions a variable assigned earlier in the same list
func (g *cg) pureLocalAssigns(list []ast.Stmt) ([]*ast.Ident, []ast.Expr, bool) {
	var ids []*ast.Ident
	var rhs []ast.Expr
	seen := map[types.Object]bool{}
	for _, st := range list {
		a, ok := st.(*ast.AssignStmt)
		if !ok || a.Tok != token.ASSIGN || len(a.Lhs) != 1 || len(a.Rhs) != 1 {
			return nil, nil, false
		}
		id, ok := a.Lhs[0].(*ast.Ident)
		if !ok {
			return nil, nil, false
		}
		o := g.p.info.Uses[id]
		if _, isLocal := g.kinds[o]; !isLocal || seen[o] {
			return nil, nil, false
		}
		bad := false
		ast.Inspect(a.Rhs[0], func(n ast.Node) bool {
			switch y := n.(type) {
			case *ast.CallExpr:
				if tv, ok := g.p.info.Types[y.Fun]; !(ok && tv.IsType()) {
					if fn, _, _ := g.callee(y); fn == nil || !fn.pure {
						bad = true
					}
				}
			case *ast.Ident:
				if seen[g.p.info.Uses[y]] {
					bad = true
				}
			}
			return !bad
		})
		if bad {
			return nil, nil, false
		}
		seen[o] = true
		ids = append(ids, id)
		rhs = append(rhs, a.Rhs[0])
	}
	return ids, rhs, len(ids) > 0
}

// callFree: no call except conversions and pure functions
func (g *cg) callFree(e ast.Expr) bool {
	ok := true
	ast.Inspect(e, func(n ast.Node) bool {
		if y, isCall := n.(*ast.CallExpr); isCall {
			if tv, has := g.p.info.Types[y.Fun]; !(has && tv.IsType()) {
				if fn, _, _ := g.callee(y); fn == nil || !fn.pure {
					ok = false
				}
			}
		}
		return ok
	})
	return ok
}

// pureBlock: a statement list that only updates one local variable — assignments `v = e` (call-free) and `if c { … }` without else
// whose body is again such a list — as a Lean expression for the final value of v: `(let v := e1; let v := if c then (…) else v; v)`
func (g *cg) pureBlock(list []ast.Stmt, obj *types.Object, ind string, dry bool) (string, bool) {
	var sb strings.Builder
	sb.WriteString("(")
	for _, st := range list {
		switch a := st.(type) {
		case *ast.AssignStmt:
			if a.Tok != token.ASSIGN || len(a.Lhs) != 1 || len(a.Rhs) != 1 {
				return "", false
			}
			id, ok := a.Lhs[0].(*ast.Ident)
			if !ok {
				return "", false
			}
			o := g.p.info.Uses[id]
			if _, isLocal := g.kinds[o]; !isLocal || (*obj != nil && o != *obj) || !g.callFree(a.Rhs[0]) {
				return "", false
			}
			*obj = o
			if !dry {
				k := g.kinds[o]
				v, kv := g.expr(a.Rhs[0], k, ind)
				if kv != k {
					g.die(a, "local %s : %s assigned %s", id.Name, k.lean(), kv.lean())
				}
				fmt.Fprintf(&sb, "let %s := %s; ", g.localName(o), v)
			}
		case *ast.IfStmt:
			if a.Else != nil || a.Init != nil || !g.callFree(a.Cond) {
				return "", false
			}
			inner, ok := g.pureBlock(a.Body.List, obj, ind, dry)
			if !ok {
				return "", false
			}
			if !dry {
				n := g.localName(*obj)
				fmt.Fprintf(&sb, "let %s := (if %s then %s else %s); ", n, g.cond(a.Cond, ind), inner, n)
			}
		default:
			return "", false
		}
	}
	if *obj == nil {
		return "", false
	}
	if !dry {
		sb.WriteString(g.localName(*obj) + ")")
	}
	return sb.String(), true
}

// fieldBlock: a statement list that only updates one non-flag register field F — `cpu.F = e`, `cpu.F op= e`, `cpu.F++` (call-free) and
// `if c { … }` without else over such lists — as a Lean expression for the final value of F, with `v` holding the running value
func (g *cg) fieldBlock(list []ast.Stmt, field *string, v string, ind string, dry bool) (string, bool) {
	var sb strings.Builder
	sb.WriteString("(")
	opTok := map[token.Token]token.Token{token.ADD_ASSIGN: token.ADD, token.SUB_ASSIGN: token.SUB, token.AND_ASSIGN: token.AND,
		token.OR_ASSIGN: token.OR, token.XOR_ASSIGN: token.XOR}
	for _, st := range list {
		switch a := st.(type) {
		case *ast.AssignStmt:
			if len(a.Lhs) != 1 || len(a.Rhs) != 1 {
				return "", false
			}
			f, ok := g.cpuField(a.Lhs[0])
			if !ok || flagFields[f] || (*field != "" && f != *field) || !g.callFree(a.Rhs[0]) {
				return "", false
			}
			fk, ok := regFields[f]
			if !ok || (fk != kU8 && fk != kU16) {
				return "", false
			}
			var rhs ast.Expr = a.Rhs[0]
			if a.Tok != token.ASSIGN {
				op, ok := opTok[a.Tok]
				if !ok {
					return "", false
				}
				be := &ast.BinaryExpr{X: a.Lhs[0], Op: op, Y: a.Rhs[0], OpPos: a.TokPos}
				g.p.info.Types[be] = types.TypeAndValue{Type: g.p.info.TypeOf(a.Lhs[0])}
				rhs = be
			}
			*field = f
			if !dry {
				e, k := g.expr(rhs, fk, ind)
				if k != fk {
					g.die(a, "field %s : %s assigned %s", f, fk.lean(), k.lean())
				}
				fmt.Fprintf(&sb, "let %s := %s; ", v, e)
			}
		case *ast.IncDecStmt:
			f, ok := g.cpuField(a.X)
			if !ok || flagFields[f] || (*field != "" && f != *field) {
				return "", false
			}
			if fk := regFields[f]; fk != kU8 && fk != kU16 {
				return "", false
			}
			*field = f
			if !dry {
				op := "+"
				if a.Tok == token.DEC {
					op = "-"
				}
				fmt.Fprintf(&sb, "let %s := %s %s 1; ", v, v, op)
			}
		case *ast.IfStmt:
			if a.Else != nil || a.Init != nil || !g.callFree(a.Cond) {
				return "", false
			}
			inner, ok := g.fieldBlock(a.Body.List, field, v, ind, dry)
			if !ok {
				return "", false
			}
			if !dry {
				fmt.Fprintf(&sb, "let %s := (if %s then %s else %s); ", v, g.cond(a.Cond, ind), inner, v)
			}
		default:
			return "", false
		}
	}
	if *field == "" {
		return "", false
	}
	if !dry {
		sb.WriteString(v + ")")
	}
	return sb.String(), true
}

// pureIfFieldSeq: `if c { … }` (no else) whose body only updates one register field (see fieldBlock) becomes one assignment
// `F := if c then (…) else F` evaluated on the current registers
func (g *cg) pureIfFieldSeq(x *ast.IfStmt, ind string) bool {
	if x.Else != nil || x.Init != nil || !g.callFree(x.Cond) {
		return false
	}
	field := ""
	if _, ok := g.fieldBlock(x.Body.List, &field, "v_", ind, true); !ok {
		return false
	}
	if mentions(x.Cond, "onWDM", "OnWDM", "OnPC") {
		return false
	}
	g.assignFields(ind, []string{field}, []func() string{func() string {
		old := g.alias
		g.alias = map[string]string{field: "v_"}
		f2 := field
		body, _ := g.fieldBlock(x.Body.List, &f2, "v_", ind, false)
		c := g.cond(x.Cond, ind)
		g.alias = old
		return fmt.Sprintf("(let v_ := c.%s; if %s then %s else v_)", field, c, body)
	}})
	return true
}

// pureIfSeq: `if c { … }` (no else) whose body only updates one local (see pureBlock) becomes `v := if c then (…) else v`
func (g *cg) pureIfSeq(x *ast.IfStmt, c string, ind string) bool {
	if x.Else != nil {
		return false
	}
	var obj types.Object
	if _, ok := g.pureBlock(x.Body.List, &obj, ind, true); !ok {
		return false
	}
	if len(x.Body.List) == 1 {
		if _, isAssign := x.Body.List[0].(*ast.AssignStmt); isAssign {
			return false // the plain single-assignment form is handled by pureIf
		}
	}
	obj2 := obj
	body, _ := g.pureBlock(x.Body.List, &obj2, ind, false)
	n := g.localName(obj)
	g.emit(ind, "%s := (if %s then %s else %s)", n, c, body, n)
	return true
}

// pureIfField: `if c { cpu.F = e1 } else { cpu.F = e2 }` (one call-free assignment to the same register field on each side) becomes
// one assignment of a conditional expression
func (g *cg) pureIfField(x *ast.IfStmt, c string, ind string) bool {
	if x.Else == nil || len(x.Body.List) != 1 {
		return false
	}
	eb, ok := x.Else.(*ast.BlockStmt)
	if !ok || len(eb.List) != 1 {
		return false
	}
	a1, ok1 := x.Body.List[0].(*ast.AssignStmt)
	a2, ok2 := eb.List[0].(*ast.AssignStmt)
	if !ok1 || !ok2 || a1.Tok != token.ASSIGN || a2.Tok != token.ASSIGN || len(a1.Lhs) != 1 || len(a2.Lhs) != 1 {
		return false
	}
	f1, okf1 := g.cpuField(a1.Lhs[0])
	f2, okf2 := g.cpuField(a2.Lhs[0])
	if !okf1 || !okf2 || f1 != f2 || !g.callFree(a1.Rhs[0]) || !g.callFree(a2.Rhs[0]) {
		return false
	}
	if mentions(x.Cond, f1) { // the condition is evaluated before the assignment either way, but keep the simple case simple
		return false
	}
	g.assignFields(ind, []string{f1}, []func() string{func() string {
		var v1, v2 string
		if flagFields[f1] {
			v1, v2 = g.flagRhs(a1.Rhs[0], f1, ind), g.flagRhs(a2.Rhs[0], f1, ind)
		} else {
			fk, ok := regFields[f1]
			if !ok {
				g.die(x, "assignment to CPU field %s outside the modelled register record", f1)
			}
			var k1, k2 kind
			v1, k1 = g.expr(a1.Rhs[0], fk, ind)
			v2, k2 = g.expr(a2.Rhs[0], fk, ind)
			if k1 != fk || k2 != fk {
				g.die(x, "field %s : %s assigned %s / %s", f1, fk.lean(), k1.lean(), k2.lean())
			}
		}
		return fmt.Sprintf("(if %s then %s else %s)", c, v1, v2)
	}})
	return true
}

// pureIf: `if c { v = e }` / `if c { v = e; w = f } else { v = e'; w = f' }` over locals only becomes `v := if c then e else v`
// (conditional expressions instead of a conditional statement: the value is the same, the generated term stays linear in size)
func (g *cg) pureIf(x *ast.IfStmt, c string, ind string) bool {
	if g.pureIfSeq(x, c, ind) || g.pureIfField(x, c, ind) {
		return true
	}
	ids, rhs, ok := g.pureLocalAssigns(x.Body.List)
	if !ok {
		return false
	}
	var eids []*ast.Ident
	var erhs []ast.Expr
	if x.Else != nil {
		eb, isBlock := x.Else.(*ast.BlockStmt)
		if !isBlock {
			return false
		}
		eids, erhs, ok = g.pureLocalAssigns(eb.List)
		if !ok || len(eids) != len(ids) {
			return false
		}
		for i := range ids {
			if g.p.info.Uses[ids[i]] != g.p.info.Uses[eids[i]] {
				return false
			}
		}
	}
	// no right-hand side may mention a variable assigned in either branch before it (checked per branch above); across the two
	// branches the same variables are assigned in the same order, so evaluating all right-hand sides first is the Go semantics
	var news []string
	for i, id := range ids {
		o := g.p.info.Uses[id]
		k := g.kinds[o]
		a, ka := g.expr(rhs[i], k, ind)
		if ka != k {
			g.die(id, "local %s : %s assigned %s", id.Name, k.lean(), ka.lean())
		}
		b := g.localName(o)
		if erhs != nil {
			var kb kind
			b, kb = g.expr(erhs[i], k, ind)
			if kb != k {
				g.die(id, "local %s : %s assigned %s", id.Name, k.lean(), kb.lean())
			}
		}
		news = append(news, fmt.Sprintf("(if %s then %s else %s)", c, a, b))
	}
	if len(ids) == 1 {
		g.emit(ind, "%s := %s", g.localName(g.p.info.Uses[ids[0]]), news[0])
		return true
	}
	// several variables: the right-hand sides were checked not to depend on one another, assign in order
	for i, id := range ids {
		g.emit(ind, "%s := %s", g.localName(g.p.info.Uses[id]), news[i])
	}
	return true
}

func (g *cg) assign(x *ast.AssignStmt, ind string) {
	// dropped: anything about the callbacks or the interrupt latch
	for i, l := range x.Lhs {
		if f, ok := g.cpuField(l); ok && f == "Interrupt" {
			if g.latchOut && len(x.Lhs) == 1 && x.Tok == token.ASSIGN {
				v, k := g.expr(x.Rhs[i], kLatch, ind)
				if k != kLatch && k != kInt {
					g.die(x, "cpu.Interrupt assigned a non-constant")
				}
				g.usesLatch = true
				g.emit(ind, "latch := %s", v)
			}
			return
		}
		if mentions(l, "onWDM") {
			return
		}
	}
	if len(x.Lhs) == 1 && len(x.Rhs) == 1 {
		if mentions(x.Rhs[0], "OnWDM", "OnPC") {
			return
		}
	}
	if len(x.Lhs) == 1 && len(x.Rhs) == 1 {
		if src, ok := g.segLookup(x.Rhs[0]); ok {
			id, isId := x.Lhs[0].(*ast.Ident)
			if !isId || x.Tok != token.DEFINE {
				g.die(x, "segment lookup must define a new variable")
			}
			ix := x.Rhs[0].(*ast.IndexExpr).Index.(*ast.BinaryExpr).X
			if !g.stableText(ix) {
				g.die(x, "the address of a segment lookup is reassigned in this function")
			}
			g.devs[g.p.info.Defs[id]] = src
			return
		}
		switch g.busField(x.Lhs[0]) {
		case "Write":
			return // debug field of bus.Bus, never read by the interpreter
		case "EA":
			v, k := g.expr(x.Rhs[0], kN32, ind)
			if k != kN32 {
				g.die(x, "b.EA assigned a non-uint32")
			}
			if !g.stableText(x.Rhs[0]) {
				g.die(x, "b.EA assigned from a variable that is reassigned")
			}
			g.eaSrc = exprString(x.Rhs[0])
			if g.used["busEA!"] {
				g.emit(ind, "busEA := %s", v)
			} else {
				g.emit(ind, "let mut busEA : Nat := %s", v)
				g.used["busEA!"] = true
			}
			return
		}
	}
	if x.Tok == token.DEFINE {
		for i, l := range x.Lhs {
			id := l.(*ast.Ident)
			if len(x.Rhs) != len(x.Lhs) {
				g.die(x, "multi-value := is not supported")
			}
			k := goKind(g.p.info.Defs[id].Type())
			v, kv := g.expr(x.Rhs[i], k, ind)
			if kv == kMode || kv == kLatch {
				k = kv
			}
			if kv != k {
				g.die(x, ":= kind %s from %s", k.lean(), kv.lean())
			}
			g.emit(ind, "let mut %s : %s := %s", g.declLocal(id, k), k.lean(), v)
		}
		return
	}
	opTok := map[token.Token]token.Token{token.ADD_ASSIGN: token.ADD, token.SUB_ASSIGN: token.SUB, token.AND_ASSIGN: token.AND,
		token.OR_ASSIGN: token.OR, token.XOR_ASSIGN: token.XOR, token.SHL_ASSIGN: token.SHL, token.SHR_ASSIGN: token.SHR, token.AND_NOT_ASSIGN: token.AND_NOT}
	rhsOf := func(i int) ast.Expr {
		if x.Tok == token.ASSIGN {
			return x.Rhs[i]
		}
		op, ok := opTok[x.Tok]
		if !ok {
			g.die(x, "unsupported assignment operator %s", x.Tok)
		}
		be := &ast.BinaryExpr{X: x.Lhs[i], Op: op, Y: x.Rhs[i], OpPos: x.TokPos}
		// record the type of the synthesised expression
		g.p.info.Types[be] = types.TypeAndValue{Type: g.p.info.TypeOf(x.Lhs[i])}
		return be
	}
	if len(x.Lhs) != len(x.Rhs) {
		g.die(x, "assignment count mismatch")
	}
	// struct assignment cpu.StepInfo = StepInfo{ea, addr, mode}
	if sel, ok := x.Lhs[0].(*ast.SelectorExpr); ok && sel.Sel.Name == "StepInfo" && len(x.Lhs) == 1 {
		cl, ok := x.Rhs[0].(*ast.CompositeLit)
		if !ok {
			g.die(x, "StepInfo assigned a non-literal")
		}
		st := g.p.info.TypeOf(cl).Underlying().(*types.Struct)
		var fs []string
		var rs []func() string
		for i, el := range cl.Elts {
			name := st.Field(i).Name()
			val := el
			if kv, ok := el.(*ast.KeyValueExpr); ok {
				name = kv.Key.(*ast.Ident).Name
				val = kv.Value
			}
			fk, ok := regFields[name]
			if !ok {
				g.die(x, "StepInfo field %s", name)
			}
			fs = append(fs, name)
			v := val
			rs = append(rs, func() string {
				s, k := g.expr(v, fk, ind)
				if k != fk {
					g.die(v, "StepInfo.%s kind %s", name, k.lean())
				}
				return s
			})
		}
		g.assignFields(ind, fs, rs)
		return
	}
	// all-field (possibly parallel) assignment
	allFields := true
	for _, l := range x.Lhs {
		if _, ok := g.cpuField(l); !ok {
			allFields = false
		}
	}
	if allFields {
		var fs []string
		var rs []func() string
		for i, l := range x.Lhs {
			f, _ := g.cpuField(l)
			i := i
			if flagFields[f] {
				fs = append(fs, f)
				rs = append(rs, func() string { return g.flagRhs(rhsOf(i), f, ind) })
				continue
			}
			fk, ok := regFields[f]
			if !ok {
				g.die(x, "assignment to CPU field %s outside the modelled register record", f)
			}
			fs = append(fs, f)
			rs = append(rs, func() string {
				s, k := g.expr(rhsOf(i), fk, ind)
				if k != fk {
					g.die(x, "field %s : %s assigned %s", f, fk.lean(), k.lean())
				}
				return s
			})
		}
		g.assignFields(ind, fs, rs)
		return
	}
	if len(x.Lhs) != 1 {
		g.die(x, "parallel assignment to locals")
	}
	l := x.Lhs[0]
	if g.isBusM(l) {
		v, k := g.expr(rhsOf(0), kU8, ind)
		if k != kU8 {
			g.die(x, "b.M assigned a non-byte")
		}
		if g.used["busM!"] {
			g.emit(ind, "busM := %s", v)
		} else {
			g.emit(ind, "let mut busM : U8 := %s", v)
			g.used["busM!"] = true
		}
		return
	}
	id, ok := l.(*ast.Ident)
	if !ok {
		g.die(x, "unsupported assignment target %s", exprString(l))
	}
	o := g.p.info.Uses[id]
	k, ok := g.kinds[o]
	if !ok {
		g.die(x, "assignment to an untranslated variable %s", id.Name)
	}
	v, kv := g.expr(rhsOf(0), k, ind)
	if kv != k {
		g.die(x, "local %s : %s assigned %s", id.Name, k.lean(), kv.lean())
	}
	g.emit(ind, "%s := %s", g.localName(o), v)
}

func (g *cg) translate(fn *cgFunc) {
	fd := fn.fd
	if fn.p != nil && fn.p != g.p {
		saved := g.p
		g.p = fn.p
		defer func() { g.p = saved }()
	}
	g.cur = fn
	g.cpuObj, g.busObj = nil, nil
	g.names = map[types.Object]string{}
	g.kinds = map[types.Object]kind{}
	g.used = map[string]bool{}
	g.lines = nil
	g.tmp = 0
	g.devs = map[types.Object]string{}
	g.eaSrc = ""
	g.helpers = nil
	g.tmpK = map[string]kind{}
	g.fresh = false
	g.usesLatch = false
	fn.deps = map[string]bool{}
	var params []string
	bind := func(fl *ast.FieldList) {
		if fl == nil {
			return
		}
		for _, f := range fl.List {
			for _, id := range f.Names {
				o := g.p.info.Defs[id]
				if pt, ok := o.Type().(*types.Pointer); ok {
					switch pt.Elem().(*types.Named).Obj().Name() {
					case "CPU":
						g.cpuObj = o
					case "Bus":
						g.busObj = o
					default:
						g.die(fd, "pointer parameter %s", id.Name)
					}
					continue
				}
				k := goKind(o.Type())
				if k == kNone {
					g.die(fd, "parameter %s of unsupported type %v", id.Name, o.Type())
				}
				g.kinds[o] = k
				params = append(params, fmt.Sprintf("(%s : %s)", g.localName(o), k.lean()))
			}
		}
	}
	bind(fd.Recv)
	bind(fd.Type.Params)
	_, rk := g.funcSig(fd)
	res := "Unit"
	switch len(rk) {
	case 0:
	case 1:
		res = rk[0].lean()
	default:
		var rs []string
		for _, k := range rk {
			rs = append(rs, k.lean())
		}
		res = strings.Join(rs, " × ")
	}
	src := g.l.fset.Position(fd.Pos())
	hdr := fmt.Sprintf("/-- generated from %s:%d `%s` -/", strings.TrimPrefix(src.Filename, *repo+"/"), src.Line, fd.Name.Name)
	if fn.pure {
		// a pure function: a single return of an expression
		if len(fd.Body.List) != 1 {
			g.die(fd, "pure function with more than one statement")
		}
		r, ok := fd.Body.List[0].(*ast.ReturnStmt)
		if !ok || len(r.Results) != 1 {
			g.die(fd, "pure function is not a single return")
		}
		g.inLambda++ // no register reads allowed anyway
		v, k := g.expr(r.Results[0], rk[0], "")
		g.inLambda--
		if k != rk[0] {
			g.die(fd, "pure function result kind")
		}
		// reducible: a pure helper occurs inside `if` conditions, whose Decidable instances must stay type-correct when the helper is rewritten
		fn.text = fmt.Sprintf("%s\n@[reducible] def %s %s : %s :=\n  %s\n", hdr, fn.name, strings.Join(params, " "), res, v)
		return
	}
	// Go parameters are variables: a parameter that is assigned gets a mutable shadow
	assigned := map[types.Object]bool{}
	ast.Inspect(fd.Body, func(n ast.Node) bool {
		switch a := n.(type) {
		case *ast.AssignStmt:
			if a.Tok != token.DEFINE {
				for _, l := range a.Lhs {
					if id, ok := l.(*ast.Ident); ok {
						assigned[g.p.info.Uses[id]] = true
					}
				}
			}
		case *ast.IncDecStmt:
			if id, ok := a.X.(*ast.Ident); ok {
				assigned[g.p.info.Uses[id]] = true
			}
		}
		return true
	})
	var ps []string
	for o := range g.kinds {
		if assigned[o] {
			ps = append(ps, g.localName(o))
		}
	}
	sort.Strings(ps)
	for _, pn := range ps {
		g.emit("  ", "let mut %s := %s", pn, pn)
	}
	g.latchOut = false
	if fd.Name.Name != "Step" {
		ast.Inspect(fd.Body, func(n ast.Node) bool {
			if a, ok := n.(*ast.AssignStmt); ok {
				for _, l := range a.Lhs {
					if sel, ok := l.(*ast.SelectorExpr); ok && sel.Sel.Name == "Interrupt" {
						g.latchOut = true
					}
				}
			}
			return true
		})
	}
	if g.latchOut {
		if len(rk) != 0 {
			g.die(fd, "a function that sets the interrupt latch and returns a value")
		}
		g.emit("  ", "let mut latch := latch")
		g.usesLatch = true
	}
	g.stmts(fd.Body.List, "  ")
	if g.latchOut {
		g.emit("  ", "return latch")
		res = "Nat"
	}
	endsInReturn := g.latchOut
	if n := len(fd.Body.List); n > 0 && !g.latchOut {
		_, endsInReturn = fd.Body.List[n-1].(*ast.ReturnStmt)
		if sw, ok := fd.Body.List[n-1].(*ast.SwitchStmt); ok && len(rk) > 0 {
			_ = sw
			endsInReturn = true // every arm returns (checked by Lean's elaborator: the block would not type-check otherwise)
		}
	}
	if !endsInReturn {
		g.emit("  ", "pure ()")
	}
	if g.usesLatch {
		params = append([]string{"(latch : Nat)"}, params...)
	}
	if fd.Name.Name == "Step" {
		params = append([]string{"(sem : U8 → RowSem) (adj : U8 → CycAdj)"}, params...)
	}
	fn.text = strings.Join(g.helpers, "\n") + func() string {
		if len(g.helpers) > 0 {
			return "\n"
		}
		return ""
	}() + fmt.Sprintf("%s\ndef %s %s : Ex (%s) := do\n%s\n", hdr, fn.name, strings.Join(params, " "), res, strings.Join(g.lines, "\n"))
}

func genCpuGo(l *loader) {
	for _, v := range []struct{ variant, pkg string }{{"Primary", "emulator/cpu65c816"}, {"Alt", "emulator/cpualt"}} {
		p, err := l.load(v.pkg)
		if err != nil {
			die("cpugo: %v", err)
		}
		g := &cg{l: l, p: p, variant: v.variant, funcs: map[string]*cgFunc{}}
		skip := map[string]string{
			"New": "constructor", "Init": "constructor", "InitFrom": "constructor", "createTable": "opcode table (gotolean cputables)",
			"AttachReader": "bus set-up", "AttachWriter": "bus set-up", "Read8": "unused by the interpreter", "Read16": "unused by the interpreter",
			"Read24": "unused by the interpreter", "Write8": "unused by the interpreter", "Write16": "unused by the interpreter", "Write24": "unused by the interpreter",
		}
		for _, f := range p.files {
			fname := l.fset.Position(f.Pos()).Filename
			base := fname[strings.LastIndex(fname, "/")+1:]
			if base != "cpu.go" && base != "bus.go" {
				continue
			}
			for _, d := range f.Decls {
				fd, ok := d.(*ast.FuncDecl)
				if !ok || fd.Body == nil {
					continue
				}
				if why, ok := skip[fd.Name.Name]; ok {
					g.skipped = append(g.skipped, fd.Name.Name+": "+why)
					continue
				}
				fn := &cgFunc{name: fd.Name.Name, fd: fd, pure: true}
				check := func(fl *ast.FieldList) {
					if fl == nil {
						return
					}
					for _, fld := range fl.List {
						if st, ok := fld.Type.(*ast.StarExpr); ok {
							if id, ok := st.X.(*ast.Ident); ok {
								fn.pure = false
								if id.Name == "Bus" {
									fn.isBus = true
								}
							}
						}
					}
				}
				check(fd.Recv)
				check(fd.Type.Params)
				if fn.isBus {
					fn.name = "Bus_" + fn.name
				}
				g.funcs[fn.name] = fn
			}
		}
		if v.variant == "Primary" {
			// cpu65c816 reaches memory through emulator/bus: its three access functions are translated too (as Bus_EaRead, …)
			bp, err := l.load("emulator/bus")
			if err != nil {
				die("cpugo: %v", err)
			}
			for _, f := range bp.files {
				for _, d := range f.Decls {
					fd, ok := d.(*ast.FuncDecl)
					if !ok || fd.Body == nil || fd.Recv == nil {
						continue
					}
					switch fd.Name.Name {
					case "EaRead", "EaWrite", "EaRead24_wrap":
						g.funcs["Bus_"+fd.Name.Name] = &cgFunc{name: "Bus_" + fd.Name.Name, p: bp, fd: fd, isBus: true}
					}
				}
			}
		}
		var names []string
		for n := range g.funcs {
			names = append(names, n)
		}
		sort.Strings(names)
		for _, n := range names {
			g.translate(g.funcs[n])
		}
		// topological order
		done := map[string]bool{}
		var visit func(n string)
		visit = func(n string) {
			if done[n] {
				return
			}
			done[n] = true
			var ds []string
			for d := range g.funcs[n].deps {
				ds = append(ds, d)
			}
			sort.Strings(ds)
			for _, d := range ds {
				if d != "callProc!" {
					visit(d)
				}
			}
			g.order = append(g.order, n)
		}
		for _, n := range names {
			visit(n)
		}
		var sb strings.Builder
		sb.WriteString(header)
		sb.WriteString("import SnesVerif.Cpu.GoPrim\nset_option linter.unusedVariables false\nset_option maxRecDepth 100000\n")
		fmt.Fprintf(&sb, "namespace Gen.CpuGo.%s\nopen Cpu Cpu.GoPrim\n\n", v.variant)
		sort.Strings(g.skipped)
		sb.WriteString("/-! not translated:\n")
		for _, s := range g.skipped {
			sb.WriteString("  " + s + "\n")
		}
		sb.WriteString("-/\n\n")
		var late []string
		for _, n := range g.order {
			if g.funcs[n].deps["callProc!"] {
				late = append(late, n)
				continue
			}
			sb.WriteString(g.funcs[n].text)
			sb.WriteString("\n")
		}
		// the dispatcher over the routine names of the opcode table
		sb.WriteString("/-- `instructions[opcode].proc(cpu)`: the routine named in the opcode table -/\ndef callProc : Proc → Ex Unit\n")
		for _, pn := range strings.Fields("adc sbc and ora eor asl lsr rol ror inc dec bcc bcs beq bne bmi bpl bvc bvs bra brl bit brk cop clc cld cli clv sec sed sei cmp cpx cpy dex dey inx iny jmp jsl jsr lda ldx ldy nop pha php phx phy pla plp plx ply rti rtl rts sta stx sty stz tax tay tsx txa tya txs txy tyx mvn mvp phb phd phk pea per pld plb rep sep stp tcd tcs tdc tsc trb tsb wdm xba xce") {
			// the routine whose name `Cpu.procOfName` reads as this constructor ("op_x", or the bare "x" cpualt uses for stp / wai)
			if _, ok := g.funcs["op_"+pn]; ok {
				fmt.Fprintf(&sb, "  | .%s => op_%s\n", pn, pn)
			} else if fn, ok := g.funcs[pn]; ok && !fn.pure && !fn.isBus {
				fmt.Fprintf(&sb, "  | .%s => %s\n", pn, pn)
			} else {
				fmt.Fprintf(&sb, "  | .%s => Cpu.GoPrim.fatal\n", pn)
			}
		}
		sb.WriteString("  | .none => Cpu.GoPrim.fatal\n\n")
		for _, n := range late {
			sb.WriteString(g.funcs[n].text)
			sb.WriteString("\n")
		}
		// flag obligations
		sb.WriteString("/-! every byte assigned to a status flag is 0 or 1 -/\n")
		k := 0
		for _, n := range g.order {
			for _, o := range g.funcs[n].obls {
				k++
				fmt.Fprintf(&sb, "theorem flag_obligation_%s_%d %s := by flag_tac\n", n, k, o)
			}
		}
		fmt.Fprintf(&sb, "\ndef translated : List String := [%s]\n", func() string {
			var q []string
			for _, n := range g.order {
				q = append(q, fmt.Sprintf("%q", n))
			}
			return strings.Join(q, ", ")
		}())
		fmt.Fprintf(&sb, "\nend Gen.CpuGo.%s\n", v.variant)
		writeIfChanged("CpuGo"+v.variant+".lean", sb.String())
	}
}
