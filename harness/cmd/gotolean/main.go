// gotolean regenerates Lean 4 models from the Go sources of /repo.
//
// It is deliberately small and fails loudly on anything outside the subset it
// understands (see DESIGN.md Appendix B).  Output goes to lean/SnesVerif/Gen/*.lean.
//
// Semantics of the translation (trusted base): every Go unsigned integer value is a Lean
// `Nat` that is kept below 2^width by construction: each arithmetic result is reduced
// modulo 2^width of its Go type (taken from go/types), subtraction is `(a + 2^w - b) % 2^w`,
// `x << k` is `(x * 2^k) % 2^w`, `x >> k` is `x / 2^k`, narrowing conversions are `% 2^w`.
// `error` results are a `Bool` (true = the package's sentinel error, false = nil).
package main

import (
	"flag"
	"fmt"
	"go/ast"
	"go/constant"
	"go/importer"
	"go/parser"
	"go/token"
	"go/types"
	"os"
	"path/filepath"
	"sort"
	"strings"
)

var repo = flag.String("repo", "/repo", "repository root")
var outDir = flag.String("out", "/verif/lean/SnesVerif/Gen", "output directory")

func die(format string, a ...interface{}) {
	fmt.Fprintf(os.Stderr, "gotolean: "+format+"\n", a...)
	os.Exit(2)
}

type pkgInfo struct {
	path  string
	name  string
	files []*ast.File
	info  *types.Info
	pkg   *types.Package
}

type loader struct {
	fset *token.FileSet
	pkgs map[string]*pkgInfo
	std  types.Importer
}

func (l *loader) Import(path string) (*types.Package, error) {
	const mod = "github.com/alttpo/snes"
	if path == mod || strings.HasPrefix(path, mod+"/") {
		p, err := l.load(strings.TrimPrefix(strings.TrimPrefix(path, mod), "/"))
		if err != nil {
			return nil, err
		}
		return p.pkg, nil
	}
	return l.std.Import(path)
}

func (l *loader) load(rel string) (*pkgInfo, error) {
	if p, ok := l.pkgs[rel]; ok {
		return p, nil
	}
	dir := filepath.Join(*repo, rel)
	ents, err := os.ReadDir(dir)
	if err != nil {
		return nil, err
	}
	var files []*ast.File
	for _, e := range ents {
		n := e.Name()
		if !strings.HasSuffix(n, ".go") || strings.HasSuffix(n, "_test.go") {
			continue
		}
		f, err := parser.ParseFile(l.fset, filepath.Join(dir, n), nil, parser.ParseComments)
		if err != nil {
			return nil, err
		}
		files = append(files, f)
	}
	if len(files) == 0 {
		return nil, fmt.Errorf("no go files in %s", dir)
	}
	info := &types.Info{
		Types: map[ast.Expr]types.TypeAndValue{},
		Defs:  map[*ast.Ident]types.Object{},
		Uses:  map[*ast.Ident]types.Object{},
		Selections: map[*ast.SelectorExpr]*types.Selection{},
	}
	conf := types.Config{Importer: l}
	ip := "github.com/alttpo/snes"
	if rel != "" {
		ip += "/" + rel
	}
	pkg, err := conf.Check(ip, l.fset, files, info)
	if err != nil {
		return nil, err
	}
	p := &pkgInfo{path: rel, name: pkg.Name(), files: files, info: info, pkg: pkg}
	l.pkgs[rel] = p
	return p, nil
}

func newLoader() *loader {
	fset := token.NewFileSet()
	return &loader{fset: fset, pkgs: map[string]*pkgInfo{}, std: importer.ForCompiler(fset, "source", nil)}
}

// ---------------------------------------------------------------------------------------
// function translator

type ftr struct {
	p      *pkgInfo
	l      *loader
	names  map[types.Object]string
	used   map[string]int
	prefix string            // lean name prefix of this package
	masks  map[uint64]bool   // constant masks seen (for lemma generation)
	calls  map[string]string // go qualified callee -> lean name
	results []*types.Var
	special func(t *ftr, r *ast.ReturnStmt) (string, bool)
	selMap  func(t *ftr, e ast.Expr) (string, bool) // maps non-subset expressions (fields, len()) to model variables
}

func width(t types.Type) int {
	b, ok := t.Underlying().(*types.Basic)
	if !ok {
		return -1
	}
	switch b.Kind() {
	case types.Uint8:
		return 8
	case types.Uint16:
		return 16
	case types.Uint32:
		return 32
	case types.Uint64:
		return 64
	case types.Uint, types.Uintptr:
		return 64
	}
	return -1
}

func pow2(w int) string {
	switch w {
	case 8:
		return "256"
	case 16:
		return "65536"
	case 32:
		return "4294967296"
	case 64:
		return "18446744073709551616"
	}
	panic("width")
}

func (t *ftr) pos(n ast.Node) string { return t.l.fset.Position(n.Pos()).String() }

func (t *ftr) name(o types.Object) string {
	if n, ok := t.names[o]; ok {
		return n
	}
	base := o.Name()
	if base == "_" {
		base = "blank"
	}
	switch base { // avoid Lean keywords
	case "end", "at", "from", "open", "show", "have", "fun", "let", "in", "do", "then", "else", "if", "match", "with", "abs":
		base = base + "'"
	}
	n := base
	if c := t.used[base]; c > 0 {
		n = fmt.Sprintf("%s_%d", base, c)
	}
	t.used[base]++
	t.names[o] = n
	return n
}

func (t *ftr) constOf(e ast.Expr) (string, bool) {
	tv, ok := t.p.info.Types[e]
	if !ok || tv.Value == nil {
		return "", false
	}
	if tv.Value.Kind() == constant.Int {
		return tv.Value.ExactString(), true
	}
	if tv.Value.Kind() == constant.Bool {
		if constant.BoolVal(tv.Value) {
			return "True", true
		}
		return "False", true
	}
	return "", false
}

func (t *ftr) typeOf(e ast.Expr) types.Type { return t.p.info.TypeOf(e) }

func (t *ftr) wrap(e ast.Expr, s string) string {
	w := width(t.typeOf(e))
	if w < 0 {
		die("%s: unsupported non-unsigned arithmetic type %v", t.pos(e), t.typeOf(e))
	}
	return fmt.Sprintf("((%s) %% %s)", s, pow2(w))
}

func isErrorType(ty types.Type) bool {
	return ty != nil && ty.String() == "error"
}

// expr translates an integer-valued expression.
func (t *ftr) expr(e ast.Expr) string {
	if t.selMap != nil {
		if s, ok := t.selMap(t, e); ok {
			return s
		}
	}
	if c, ok := t.constOf(e); ok {
		if isErrorType(t.typeOf(e)) {
			die("%s: constant error?", t.pos(e))
		}
		return c
	}
	switch x := e.(type) {
	case *ast.ParenExpr:
		return t.expr(x.X)
	case *ast.Ident:
		o := t.p.info.Uses[x]
		if o == nil {
			o = t.p.info.Defs[x]
		}
		if o == nil {
			die("%s: unresolved identifier %s", t.pos(e), x.Name)
		}
		if _, isNil := o.(*types.Nil); isNil {
			return "false"
		}
		if v, ok := o.(*types.Var); ok && !v.IsField() && v.Parent() != nil && v.Parent() != v.Pkg().Scope() {
			return t.name(o)
		}
		if v, ok := o.(*types.Var); ok && isErrorType(v.Type()) && v.Parent() == v.Pkg().Scope() {
			return "true" // package-level sentinel error
		}
		die("%s: unsupported identifier %s (%T)", t.pos(e), x.Name, o)
	case *ast.SelectorExpr:
		// pkg.Var sentinel error
		if o := t.p.info.Uses[x.Sel]; o != nil {
			if v, ok := o.(*types.Var); ok && isErrorType(v.Type()) && v.Parent() == v.Pkg().Scope() {
				return "true"
			}
		}
		die("%s: unsupported selector %s", t.pos(e), x.Sel.Name)
	case *ast.BinaryExpr:
		a, b := t.expr(x.X), t.expr(x.Y)
		w := width(t.typeOf(e))
		switch x.Op {
		case token.ADD:
			return t.wrap(e, a+" + "+b)
		case token.SUB:
			return t.wrap(e, fmt.Sprintf("%s + %s - %s", a, pow2(w), b))
		case token.MUL:
			return t.wrap(e, a+" * "+b)
		case token.QUO:
			return fmt.Sprintf("(%s / %s)", a, b)
		case token.REM:
			return fmt.Sprintf("(%s %% %s)", a, b)
		case token.AND:
			if c, ok := t.constOf(x.Y); ok {
				var m uint64
				fmt.Sscan(c, &m)
				t.masks[m] = true
			}
			return fmt.Sprintf("(%s &&& %s)", a, b)
		case token.OR:
			return fmt.Sprintf("(%s ||| %s)", a, b)
		case token.XOR:
			return fmt.Sprintf("(%s ^^^ %s)", a, b)
		case token.SHL:
			c, ok := t.constOf(x.Y)
			if !ok {
				die("%s: shift by non-constant", t.pos(e))
			}
			var k uint
			fmt.Sscan(c, &k)
			return t.wrap(e, fmt.Sprintf("%s * %d", a, uint64(1)<<k))
		case token.SHR:
			c, ok := t.constOf(x.Y)
			if !ok {
				die("%s: shift by non-constant", t.pos(e))
			}
			var k uint
			fmt.Sscan(c, &k)
			return fmt.Sprintf("(%s / %d)", a, uint64(1)<<k)
		}
		die("%s: unsupported binary operator %s", t.pos(e), x.Op)
	case *ast.UnaryExpr:
		a := t.expr(x.X)
		w := width(t.typeOf(e))
		switch x.Op {
		case token.XOR:
			return fmt.Sprintf("(%s - 1 - %s)", pow2(w), a)
		case token.SUB:
			return t.wrap(e, fmt.Sprintf("%s - %s", pow2(w), a))
		}
		die("%s: unsupported unary operator %s", t.pos(e), x.Op)
	case *ast.CallExpr:
		// conversion?
		if tv, ok := t.p.info.Types[x.Fun]; ok && tv.IsType() {
			if len(x.Args) != 1 {
				die("%s: conversion arity", t.pos(e))
			}
			from, to := width(t.typeOf(x.Args[0])), width(tv.Type)
			if to < 0 {
				die("%s: unsupported conversion target %v", t.pos(e), tv.Type)
			}
			a := t.expr(x.Args[0])
			if from < 0 {
				// untyped constant would have been folded; anything else unsupported
				die("%s: unsupported conversion source %v", t.pos(e), t.typeOf(x.Args[0]))
			}
			if to < from {
				return fmt.Sprintf("(%s %% %s)", a, pow2(to))
			}
			return a
		}
		return t.call(x)
	}
	die("%s: unsupported expression %T", t.pos(e), e)
	return ""
}

func (t *ftr) call(x *ast.CallExpr) string {
	var o types.Object
	var recv string
	switch f := x.Fun.(type) {
	case *ast.Ident:
		o = t.p.info.Uses[f]
	case *ast.SelectorExpr:
		if sel, ok := t.p.info.Selections[f]; ok && sel.Kind() == types.MethodVal {
			o = sel.Obj()
			recv = t.expr(f.X)
		} else {
			o = t.p.info.Uses[f.Sel]
		}
	}
	fn, ok := o.(*types.Func)
	if !ok {
		die("%s: unsupported call", t.pos(x))
	}
	ln := leanFuncName(fn)
	args := []string{}
	if recv != "" {
		args = append(args, recv)
	}
	for _, a := range x.Args {
		args = append(args, t.expr(a))
	}
	s := ln
	for _, a := range args {
		s += " (" + a + ")"
	}
	return "(" + s + ")"
}

func leanFuncName(fn *types.Func) string {
	pkg := fn.Pkg().Name()
	sig := fn.Type().(*types.Signature)
	if r := sig.Recv(); r != nil {
		tn := r.Type()
		if p, ok := tn.(*types.Pointer); ok {
			tn = p.Elem()
		}
		return fmt.Sprintf("%s_%s_%s", pkg, tn.(*types.Named).Obj().Name(), fn.Name())
	}
	return fmt.Sprintf("%s_%s", pkg, fn.Name())
}

// cond translates a boolean expression to a decidable Prop.
func (t *ftr) cond(e ast.Expr) string {
	if c, ok := t.constOf(e); ok {
		return c
	}
	switch x := e.(type) {
	case *ast.ParenExpr:
		return "(" + t.cond(x.X) + ")"
	case *ast.UnaryExpr:
		if x.Op == token.NOT {
			return "¬ (" + t.cond(x.X) + ")"
		}
	case *ast.BinaryExpr:
		switch x.Op {
		case token.LAND:
			return "(" + t.cond(x.X) + " ∧ " + t.cond(x.Y) + ")"
		case token.LOR:
			return "(" + t.cond(x.X) + " ∨ " + t.cond(x.Y) + ")"
		}
		a, b := t.expr(x.X), t.expr(x.Y)
		switch x.Op {
		case token.LSS:
			return fmt.Sprintf("(%s < %s)", a, b)
		case token.LEQ:
			return fmt.Sprintf("(%s ≤ %s)", a, b)
		case token.GTR:
			return fmt.Sprintf("(%s > %s)", a, b)
		case token.GEQ:
			return fmt.Sprintf("(%s ≥ %s)", a, b)
		case token.EQL:
			return fmt.Sprintf("(%s = %s)", a, b)
		case token.NEQ:
			return fmt.Sprintf("(%s ≠ %s)", a, b)
		}
	}
	die("%s: unsupported condition %T", t.pos(e), e)
	return ""
}

type cont func(ind string) string

func (t *ftr) retTuple(vals []string) string {
	if len(vals) == 1 {
		return vals[0]
	}
	return "(" + strings.Join(vals, ", ") + ")"
}

func (t *ftr) stmts(list []ast.Stmt, ind string, k cont) string {
	if len(list) == 0 {
		return k(ind)
	}
	s := list[0]
	rest := func(ind string) string { return t.stmts(list[1:], ind, k) }
	switch x := s.(type) {
	case *ast.ReturnStmt:
		if t.special != nil {
			if r, ok := t.special(t, x); ok {
				return ind + r + "\n"
			}
		}
		vals := []string{}
		if len(x.Results) == 0 {
			for _, r := range t.results {
				vals = append(vals, t.name(r))
			}
		} else {
			if len(x.Results) != len(t.results) {
				die("%s: return arity", t.pos(x))
			}
			for _, r := range x.Results {
				vals = append(vals, t.expr(r))
			}
		}
		return ind + t.retTuple(vals) + "\n"
	case *ast.BlockStmt:
		return t.stmts(x.List, ind, rest)
	case *ast.DeclStmt:
		gd, ok := x.Decl.(*ast.GenDecl)
		if !ok || gd.Tok != token.VAR {
			die("%s: unsupported declaration", t.pos(x))
		}
		out := ""
		for _, sp := range gd.Specs {
			vs := sp.(*ast.ValueSpec)
			for i, n := range vs.Names {
				o := t.p.info.Defs[n]
				v := "0"
				if isErrorType(o.Type()) {
					v = "false"
				}
				if i < len(vs.Values) {
					v = t.expr(vs.Values[i])
				}
				out += fmt.Sprintf("%slet %s := %s\n", ind, t.name(o), v)
			}
		}
		return out + rest(ind)
	case *ast.AssignStmt:
		if len(x.Lhs) > 1 && len(x.Rhs) == 1 {
			// tuple assignment from a call
			rhs := t.expr(x.Rhs[0])
			tmp := fmt.Sprintf("t_%d", t.used["t_"])
			t.used["t_"]++
			out := fmt.Sprintf("%slet %s := %s\n", ind, tmp, rhs)
			n := len(x.Lhs)
			for i, l := range x.Lhs {
				id, ok := l.(*ast.Ident)
				if !ok {
					die("%s: unsupported assignment target", t.pos(x))
				}
				if id.Name == "_" {
					continue
				}
				o := t.p.info.Defs[id]
				if o == nil {
					o = t.p.info.Uses[id]
				}
				proj := tmp
				for j := 0; j < i; j++ {
					proj += ".2"
				}
				if i < n-1 {
					proj += ".1"
				}
				out += fmt.Sprintf("%slet %s := %s\n", ind, t.name(o), proj)
			}
			return out + rest(ind)
		}
		if len(x.Lhs) != len(x.Rhs) {
			die("%s: unsupported assignment shape", t.pos(x))
		}
		// evaluate all right-hand sides first (Go semantics for parallel assignment)
		vals := make([]string, len(x.Rhs))
		for i := range x.Rhs {
			id, ok := x.Lhs[i].(*ast.Ident)
			if !ok {
				die("%s: unsupported assignment target %T", t.pos(x), x.Lhs[i])
			}
			switch x.Tok {
			case token.DEFINE, token.ASSIGN:
				vals[i] = t.expr(x.Rhs[i])
			default:
				// op= : build the binary expression
				var op token.Token
				switch x.Tok {
				case token.ADD_ASSIGN:
					op = token.ADD
				case token.SUB_ASSIGN:
					op = token.SUB
				case token.AND_ASSIGN:
					op = token.AND
				case token.OR_ASSIGN:
					op = token.OR
				case token.SHL_ASSIGN:
					op = token.SHL
				case token.SHR_ASSIGN:
					op = token.SHR
				default:
					die("%s: unsupported assignment operator %s", t.pos(x), x.Tok)
				}
				be := &ast.BinaryExpr{X: id, Op: op, Y: x.Rhs[i], OpPos: x.TokPos}
				t.p.info.Types[be] = types.TypeAndValue{Type: t.typeOf(id)}
				vals[i] = t.expr(be)
			}
		}
		out := ""
		if len(vals) > 1 {
			// parallel: bind temporaries first
			tmps := make([]string, len(vals))
			for i, v := range vals {
				tmps[i] = fmt.Sprintf("t_%d", t.used["t_"])
				t.used["t_"]++
				out += fmt.Sprintf("%slet %s := %s\n", ind, tmps[i], v)
			}
			vals = tmps
		}
		for i, l := range x.Lhs {
			id := l.(*ast.Ident)
			if id.Name == "_" {
				continue
			}
			o := t.p.info.Defs[id]
			if o == nil {
				o = t.p.info.Uses[id]
			}
			out += fmt.Sprintf("%slet %s := %s\n", ind, t.name(o), vals[i])
		}
		return out + rest(ind)
	case *ast.IfStmt:
		if x.Init != nil {
			die("%s: if with init unsupported", t.pos(x))
		}
		out := fmt.Sprintf("%sif %s then\n", ind, t.cond(x.Cond))
		out += t.stmts(x.Body.List, ind+"  ", rest)
		out += ind + "else\n"
		if x.Else != nil {
			out += t.stmts([]ast.Stmt{x.Else}, ind+"  ", rest)
		} else {
			out += rest(ind + "  ")
		}
		return out
	case *ast.IncDecStmt:
		id, ok := x.X.(*ast.Ident)
		if !ok {
			die("%s: unsupported inc/dec target", t.pos(x))
		}
		op := token.ADD
		if x.Tok == token.DEC {
			op = token.SUB
		}
		one := &ast.BasicLit{Kind: token.INT, Value: "1"}
		t.p.info.Types[one] = types.TypeAndValue{Type: t.typeOf(id), Value: constant.MakeInt64(1)}
		be := &ast.BinaryExpr{X: id, Op: op, Y: one}
		t.p.info.Types[be] = types.TypeAndValue{Type: t.typeOf(id)}
		o := t.p.info.Uses[id]
		return fmt.Sprintf("%slet %s := %s\n", ind, t.name(o), t.expr(be)) + rest(ind)
	}
	die("%s: unsupported statement %T", t.pos(s), s)
	return ""
}

func leanType(ty types.Type) string {
	if isErrorType(ty) {
		return "Bool"
	}
	if width(ty) > 0 {
		return "Nat"
	}
	die("unsupported type %v", ty)
	return ""
}

// translateFunc renders one Go function as a Lean def; returns (leanName, text).
func translateFunc(l *loader, p *pkgInfo, fd *ast.FuncDecl, masks map[uint64]bool) (string, string) {
	return translateFuncOpt(l, p, fd, masks, "", nil)
}

func translateFuncOpt(l *loader, p *pkgInfo, fd *ast.FuncDecl, masks map[uint64]bool, resType string,
	special func(t *ftr, r *ast.ReturnStmt) (string, bool)) (string, string) {
	fn := p.info.Defs[fd.Name].(*types.Func)
	sig := fn.Type().(*types.Signature)
	t := &ftr{p: p, l: l, names: map[types.Object]string{}, used: map[string]int{}, masks: masks, special: special}
	ln := leanFuncName(fn)
	var params []string
	if r := sig.Recv(); r != nil && resType == "" {
		params = append(params, fmt.Sprintf("(%s : %s)", t.name(r), leanType(r.Type())))
	}
	for i := 0; i < sig.Params().Len(); i++ {
		v := sig.Params().At(i)
		params = append(params, fmt.Sprintf("(%s : %s)", t.name(v), leanType(v.Type())))
	}
	var rts []string
	for i := 0; i < sig.Results().Len() && resType == ""; i++ {
		v := sig.Results().At(i)
		t.results = append(t.results, v)
		rts = append(rts, leanType(v.Type()))
	}
	if resType != "" {
		rts = []string{resType}
	}
	body := ""
	for _, v := range t.results {
		if v.Name() != "" && v.Name() != "_" {
			z := "0"
			if isErrorType(v.Type()) {
				z = "false"
			}
			body += fmt.Sprintf("  let %s := %s\n", t.name(v), z)
		}
	}
	body += t.stmts(fd.Body.List, "  ", func(ind string) string {
		// falling off the end: only legal with named results
		vals := []string{}
		for _, r := range t.results {
			vals = append(vals, t.name(r))
		}
		return ind + t.retTuple(vals) + "\n"
	})
	src := l.fset.Position(fd.Pos())
	rel, _ := filepath.Rel(*repo, src.Filename)
	txt := fmt.Sprintf("/-- generated from %s:%d `%s` -/\ndef %s %s : %s :=\n%s\n",
		rel, src.Line, fn.FullName(), ln, strings.Join(params, " "), strings.Join(rts, " × "), body)
	return ln, txt
}

func findFunc(p *pkgInfo, recv, name string) *ast.FuncDecl {
	for _, f := range p.files {
		for _, d := range f.Decls {
			fd, ok := d.(*ast.FuncDecl)
			if !ok || fd.Name.Name != name {
				continue
			}
			r := ""
			if fd.Recv != nil && len(fd.Recv.List) == 1 {
				switch rt := fd.Recv.List[0].Type.(type) {
				case *ast.Ident:
					r = rt.Name
				case *ast.StarExpr:
					if id, ok := rt.X.(*ast.Ident); ok {
						r = id.Name
					}
				}
			}
			if r == recv {
				return fd
			}
		}
	}
	return nil
}

const header = "-- GENERATED by /verif/harness/cmd/gotolean from /repo — do not edit; regenerated on every check run.\n"

func writeIfChanged(name, content string) {
	path := filepath.Join(*outDir, name)
	old, err := os.ReadFile(path)
	if err == nil && string(old) == content {
		return
	}
	if err := os.MkdirAll(*outDir, 0o755); err != nil {
		die("%v", err)
	}
	if err := os.WriteFile(path, []byte(content), 0o644); err != nil {
		die("%v", err)
	}
}

func maskRuns(m uint64) [][2]int { // list of (lo, len) runs of 1 bits
	var runs [][2]int
	i := 0
	for i < 64 {
		if m>>uint(i)&1 == 1 {
			j := i
			for j < 64 && m>>uint(j)&1 == 1 {
				j++
			}
			runs = append(runs, [2]int{i, j - i})
			i = j
		} else {
			i++
		}
	}
	return runs
}

func genMaps(l *loader) {
	var sb strings.Builder
	sb.WriteString(header)
	sb.WriteString("import SnesVerif.Base.Bits\nset_option maxRecDepth 10000\nset_option linter.unusedVariables false\nnamespace Gen\n\n")
	masks := map[uint64]bool{}
	util, err := l.load("mapping/util")
	if err != nil {
		die("%v", err)
	}
	fd := findFunc(util, "", "BankToLinear")
	if fd == nil {
		die("mapping/util.BankToLinear not found")
	}
	_, txt := translateFunc(l, util, fd, masks)
	sb.WriteString(txt)
	for _, m := range []string{"lorom", "hirom", "exhirom", "sa1rom"} {
		p, err := l.load("mapping/" + m)
		if err != nil {
			die("%v", err)
		}
		for _, fn := range []string{"BusAddressToPak", "PakAddressToBus"} {
			fd := findFunc(p, "", fn)
			if fd == nil {
				die("mapping/%s.%s not found", m, fn)
			}
			_, txt := translateFunc(l, p, fd, masks)
			sb.WriteString(txt)
		}
	}
	sb.WriteString(maskLemmas(masks, "map"))
	sb.WriteString("end Gen\n")
	writeIfChanged("Map.lean", sb.String())
}

func maskLemmas(masks map[uint64]bool, tag string) string {
	var ms []uint64
	for m := range masks {
		ms = append(ms, m)
	}
	sort.Slice(ms, func(i, j int) bool { return ms[i] < ms[j] })
	var sb strings.Builder
	sb.WriteString("/-! Mask lemmas: one per constant mask occurring in the translated source, proved by a fixed tactic. -/\n")
	for _, m := range ms {
		runs := maskRuns(m)
		var terms, rl []string
		for i := len(runs) - 1; i >= 0; i-- {
			lo, ln := runs[i][0], runs[i][1]
			if lo == 0 {
				terms = append(terms, fmt.Sprintf("x %% %d", uint64(1)<<uint(ln)))
			} else {
				terms = append(terms, fmt.Sprintf("(x / %d) %% %d * %d", uint64(1)<<uint(lo), uint64(1)<<uint(ln), uint64(1)<<uint(lo)))
			}
			rl = append(rl, fmt.Sprintf("(%d,%d)", lo, ln))
		}
		rhs := strings.Join(terms, " + ")
		if rhs == "" {
			rhs = "0"
		}
		sb.WriteString(fmt.Sprintf("theorem %s_mask_%x (x : Nat) : x &&& %d = %s := by\n  have h := Bits.and_runs x 64 [%s] (by decide)\n  simpa [Bits.maskOfRuns, Bits.runsSum] using h\n", tag, m, m, rhs, strings.Join(rl, ",")))
	}
	return sb.String()
}

func genColor(l *loader) {
	var sb strings.Builder
	sb.WriteString(header)
	sb.WriteString("import SnesVerif.Base.Bits\nset_option maxRecDepth 10000\nset_option linter.unusedVariables false\nnamespace Gen\n\n")
	masks := map[uint64]bool{}
	p, err := l.load("color15")
	if err != nil {
		die("%v", err)
	}
	for _, fn := range [][2]string{{"Color", "ToRGB"}, {"", "ToColor15"}, {"Color", "Luminosity"}, {"Color", "MulDiv"}} {
		fd := findFunc(p, fn[0], fn[1])
		if fd == nil {
			die("color15 %s.%s not found", fn[0], fn[1])
		}
		_, txt := translateFunc(l, p, fd, masks)
		sb.WriteString(txt)
	}
	sb.WriteString(maskLemmas(masks, "color"))
	sb.WriteString("end Gen\n")
	writeIfChanged("Color.lean", sb.String())
}

func main() {
	flag.Parse()
	l := newLoader()
	what := flag.Args()
	if len(what) == 0 {
		what = []string{"map", "color", "romwin", "cputables", "asm", "header", "globals", "cpudiff", "cpugo"}
	}
	for _, w := range what {
		switch w {
		case "map":
			genMaps(l)
		case "color":
			genColor(l)
		case "romwin":
			genRomWin(l)
		case "cputables":
			genCpuTables(l)
		case "asm":
			genAsm(l)
		case "header":
			genHeader(l)
		case "globals":
			genGlobals(l)
		case "cpudiff":
			genCpuDiff(l)
		case "cpugo":
			genCpuGo(l)
		default:
			die("unknown generator %q", w)
		}
	}
}
