package main

import (
	"fmt"
	"go/ast"
	"go/token"
	"go/types"
	"reflect"
	"strconv"
	"strings"
)

// genHeader extracts the exported-field layout of snes.Header (walked exactly as readBinaryStruct /
// writeBinaryStruct + encoding/binary do: exported fields in declaration order, nested structs expanded,
// scalars little-endian, byte arrays verbatim) into Gen/HeaderLayout.lean.
func genHeader(l *loader) {
	p, err := l.load("")
	if err != nil {
		die("%v", err)
	}
	obj := p.pkg.Scope().Lookup("Header")
	if obj == nil {
		die("header.go: type Header not found")
	}
	st, ok := obj.Type().Underlying().(*types.Struct)
	if !ok {
		die("header.go: Header is not a struct")
	}
	type leaf struct {
		path  string
		size  int
		isArr bool
		tag   string
	}
	var leaves []leaf
	var skipped []string
	var walk func(prefix string, st *types.Struct, top bool)
	walk = func(prefix string, st *types.Struct, top bool) {
		for i := 0; i < st.NumFields(); i++ {
			f := st.Field(i)
			if !f.Exported() {
				if top {
					skipped = append(skipped, f.Name()) // readBinaryStruct skips unexported top-level fields
					continue
				}
				die("header.go: unexported field %s%s inside a nested struct (encoding/binary would fail)", prefix, f.Name())
			}
			tag := reflect.StructTag(st.Tag(i)).Get("rom")
			switch u := f.Type().Underlying().(type) {
			case *types.Basic:
				w := width(f.Type())
				if w < 0 {
					die("header.go: field %s%s has unsupported type %v", prefix, f.Name(), f.Type())
				}
				leaves = append(leaves, leaf{prefix + f.Name(), w / 8, false, tag})
			case *types.Array:
				if width(u.Elem()) != 8 {
					die("header.go: field %s%s: only byte arrays are supported", prefix, f.Name())
				}
				leaves = append(leaves, leaf{prefix + f.Name(), int(u.Len()), true, tag})
			case *types.Struct:
				walk(prefix+f.Name()+".", u, false)
			default:
				die("header.go: field %s%s has unsupported type %v", prefix, f.Name(), f.Type())
			}
		}
	}
	walk("", st, true)
	var sb strings.Builder
	sb.WriteString(header)
	sb.WriteString("namespace Gen\n\n/-- one leaf field of the header as walked by readBinaryStruct / encoding/binary -/\nstructure Leaf where\n  path : String\n  size : Nat\n  isArr : Bool\n  tag : Option Nat   -- the `rom:\"FFxx\"` struct tag\n  deriving Repr, DecidableEq\n\n")
	sb.WriteString("def headerLeaves : List Leaf := [\n")
	for i, lf := range leaves {
		tag := "none"
		if lf.tag != "" {
			v, err := strconv.ParseUint(lf.tag, 16, 32)
			if err != nil {
				die("header.go: field %s has a malformed rom tag %q", lf.path, lf.tag)
			}
			tag = fmt.Sprintf("some 0x%X", v)
		}
		sep := ","
		if i == len(leaves)-1 {
			sep = ""
		}
		sb.WriteString(fmt.Sprintf("  ⟨%q, %d, %v, %s⟩%s\n", lf.path, lf.size, lf.isArr, tag, sep))
	}
	sb.WriteString("]\n\n")
	sb.WriteString(fmt.Sprintf("/-- unexported top-level fields skipped by the walker -/\ndef headerSkipped : List String := %s\n\n", leanStrList(skipped)))
	genHeaderLogic(l, p, &sb)
	sb.WriteString("end Gen\n")
	writeIfChanged("HeaderLayout.lean", sb.String())
}

// genHeaderLogic extracts the version-detection rule of Header.ReadHeader and the constants of NewROM /
// ROM.ReadHeader / ROM.WriteHeader as data.
func genHeaderLogic(l *loader, p *pkgInfo, sb *strings.Builder) {
	t := &ftr{p: p, l: l}
	cst := func(e ast.Expr, what string) string {
		c, ok := t.constOf(e)
		if !ok {
			die("%s: %s is not a constant", t.pos(e), what)
		}
		return c
	}
	// --- Header.ReadHeader: if h.F == C {version=3} else if h.G[k] == C' {version=2} else {version=1; zero fields}
	fd := findFunc(p, "Header", "ReadHeader")
	if fd == nil {
		die("header.go: Header.ReadHeader not found")
	}
	var chain *ast.IfStmt
	for _, st := range fd.Body.List {
		if is, ok := st.(*ast.IfStmt); ok && is.Init == nil {
			chain = is
		}
	}
	if chain == nil {
		die("header.go: version detection chain not found in Header.ReadHeader")
	}
	versionOf := func(b *ast.BlockStmt) (string, []string) {
		ver := ""
		var zeroed []string
		for _, st := range b.List {
			as, ok := st.(*ast.AssignStmt)
			if !ok || len(as.Lhs) != 1 {
				die("%s: unexpected statement in version branch", t.pos(st))
			}
			sel, ok := as.Lhs[0].(*ast.SelectorExpr)
			if !ok {
				die("%s: unexpected assignment target in version branch", t.pos(st))
			}
			if sel.Sel.Name == "version" {
				ver = cst(as.Rhs[0], "version")
				continue
			}
			// must be a zero value
			switch r := as.Rhs[0].(type) {
			case *ast.CompositeLit:
				if len(r.Elts) != 0 {
					die("%s: non-zero composite assigned in version branch", t.pos(st))
				}
			default:
				if c := cst(as.Rhs[0], "zeroing value"); c != "0" {
					die("%s: field %s set to non-zero %s in version branch", t.pos(st), sel.Sel.Name, c)
				}
			}
			zeroed = append(zeroed, sel.Sel.Name)
		}
		if ver == "" {
			die("%s: version branch does not set version", t.pos(b))
		}
		return ver, zeroed
	}
	var rules []string
	var defVer string
	var defZero []string
	cur := chain
	for {
		be, ok := cur.Cond.(*ast.BinaryExpr)
		if !ok || be.Op != token.EQL {
			die("%s: version condition is not an equality", t.pos(cur.Cond))
		}
		field, idx := "", "none"
		switch x := be.X.(type) {
		case *ast.SelectorExpr:
			field = x.Sel.Name
		case *ast.IndexExpr:
			if s, ok := x.X.(*ast.SelectorExpr); ok {
				field = s.Sel.Name
				idx = "some " + cst(x.Index, "index")
			}
		}
		if field == "" {
			die("%s: version condition has an unrecognised left-hand side", t.pos(cur.Cond))
		}
		ver, zs := versionOf(cur.Body)
		if len(zs) != 0 {
			die("%s: only the final else branch may zero fields", t.pos(cur.Body))
		}
		rules = append(rules, fmt.Sprintf("(%q, %s, %s, %s)", field, idx, cst(be.Y, "compared constant"), ver))
		switch e := cur.Else.(type) {
		case *ast.IfStmt:
			cur = e
			continue
		case *ast.BlockStmt:
			defVer, defZero = versionOf(e)
		default:
			die("%s: version chain must end in an else block", t.pos(cur))
		}
		break
	}
	sb.WriteString(fmt.Sprintf("/-- version detection of Header.ReadHeader: first matching (field, byte index, constant) ↦ version -/\ndef headerVersionRules : List (String × Option Nat × Nat × Nat) := [%s]\ndef headerDefaultVersion : Nat := %s\n/-- fields zeroed when the default version is detected -/\ndef headerDefaultZeroed : List String := %s\n\n",
		strings.Join(rules, ", "), defVer, leanStrList(defZero)))

	// --- NewROM: minimum size and header offset
	fd = findFunc(p, "", "NewROM")
	if fd == nil {
		die("rom.go: NewROM not found")
	}
	minSize, hdrOff := "", ""
	ast.Inspect(fd.Body, func(n ast.Node) bool {
		switch x := n.(type) {
		case *ast.IfStmt:
			if be, ok := x.Cond.(*ast.BinaryExpr); ok && be.Op == token.LSS {
				if c, ok := t.constOf(be.Y); ok {
					minSize = c
				}
			}
		case *ast.AssignStmt:
			if len(x.Lhs) == 1 && fmt.Sprint(x.Lhs[0]) == "headerOffset" {
				if c, ok := t.constOf(x.Rhs[0]); ok {
					hdrOff = c
				}
			}
		}
		return true
	})
	if minSize == "" || hdrOff == "" {
		die("rom.go: NewROM constants not recognised")
	}
	// --- ROM.ReadHeader: Contents[HeaderOffset : HeaderOffset+L]
	fd = findFunc(p, "ROM", "ReadHeader")
	readLen := ""
	ast.Inspect(fd.Body, func(n ast.Node) bool {
		if se, ok := n.(*ast.SliceExpr); ok && se.High != nil {
			if be, ok := se.High.(*ast.BinaryExpr); ok && be.Op == token.ADD {
				if c, ok := t.constOf(be.Y); ok {
					readLen = c
				}
			}
			if fmt.Sprint(se.Low) != "&{r HeaderOffset}" {
				die("%s: ROM.ReadHeader does not slice from HeaderOffset", t.pos(se))
			}
		}
		return true
	})
	if readLen == "" {
		die("rom.go: ROM.ReadHeader slice not recognised")
	}
	// --- ROM.WriteHeader: if version <= K { copy(Contents[off+A:off+B], b[A':]) } else { copy(Contents[off:off+B2], b) }
	fd = findFunc(p, "ROM", "WriteHeader")
	var wif *ast.IfStmt
	for _, st := range fd.Body.List {
		if is, ok := st.(*ast.IfStmt); ok && is.Init == nil {
			wif = is
		}
	}
	if wif == nil {
		die("rom.go: ROM.WriteHeader version switch not found")
	}
	be, ok := wif.Cond.(*ast.BinaryExpr)
	if !ok || be.Op != token.LEQ {
		die("%s: ROM.WriteHeader condition is not `version <= K`", t.pos(wif.Cond))
	}
	maxV1 := cst(be.Y, "version threshold")
	offC := func(e ast.Expr) string { // HeaderOffset or HeaderOffset + C
		if fmt.Sprint(e) == "&{r HeaderOffset}" {
			return "0"
		}
		if b, ok := e.(*ast.BinaryExpr); ok && b.Op == token.ADD && fmt.Sprint(b.X) == "&{r HeaderOffset}" {
			return cst(b.Y, "offset")
		}
		die("%s: unrecognised offset expression", t.pos(e))
		return ""
	}
	copyArgs := func(b *ast.BlockStmt) (lo, hi, src string) {
		if len(b.List) != 1 {
			die("%s: ROM.WriteHeader branch must be a single copy", t.pos(b))
		}
		es, ok := b.List[0].(*ast.ExprStmt)
		if !ok {
			die("%s: ROM.WriteHeader branch must be a copy call", t.pos(b))
		}
		c, ok := es.X.(*ast.CallExpr)
		if !ok || fmt.Sprint(c.Fun) != "copy" {
			die("%s: ROM.WriteHeader branch must be a copy call", t.pos(b))
		}
		d := c.Args[0].(*ast.SliceExpr)
		lo, hi = offC(d.Low), offC(d.High)
		src = "0"
		if s, ok := c.Args[1].(*ast.SliceExpr); ok {
			if s.High != nil {
				die("%s: unexpected source upper bound", t.pos(s))
			}
			src = cst(s.Low, "source offset")
		}
		return
	}
	l1, h1, s1 := copyArgs(wif.Body)
	l2, h2, s2 := copyArgs(wif.Else.(*ast.BlockStmt))
	sb.WriteString(fmt.Sprintf("/-- constants of NewROM / ROM.ReadHeader / ROM.WriteHeader -/\ndef romMinSize : Nat := %s\ndef romHeaderOffset : Nat := %s\ndef romHeaderReadLen : Nat := %s\n", minSize, hdrOff, readLen))
	sb.WriteString(fmt.Sprintf("/-- WriteHeader: `if version ≤ romV1Max` copies serialised[src:] to Contents[off+lo : off+hi], else the other triple -/\ndef romV1Max : Nat := %s\ndef romV1Copy : Nat × Nat × Nat := (%s, %s, %s)\ndef romV2Copy : Nat × Nat × Nat := (%s, %s, %s)\n\n", maxV1, l1, h1, s1, l2, h2, s2))
}

func leanStrList(ss []string) string {
	qs := make([]string, len(ss))
	for i, s := range ss {
		qs[i] = strconv.Quote(s)
	}
	return "[" + strings.Join(qs, ", ") + "]"
}
