package main

import (
	"fmt"
	"go/ast"
	"go/token"
	"strings"
)

// genRomWin regenerates the integer window arithmetic of ROM.BusReader / ROM.BusWriter and the guard and copy
// bounds of busWriter.Write from /repo/rom.go.
func genRomWin(l *loader) {
	p, err := l.load("")
	if err != nil {
		die("%v", err)
	}
	var sb strings.Builder
	sb.WriteString(header)
	sb.WriteString("import SnesVerif.Base.Bits\nset_option maxRecDepth 10000\nset_option linter.unusedVariables false\nnamespace Gen\n\n")
	masks := map[uint64]bool{}
	// window functions: result = none (always-error object) | some (start, end) of the exposed slice Contents[start:end]
	for _, name := range []string{"BusReader", "BusWriter"} {
		fd := findFunc(p, "ROM", name)
		if fd == nil {
			die("rom.go: method ROM.%s not found", name)
		}
		special := func(t *ftr, r *ast.ReturnStmt) (string, bool) {
			if len(r.Results) != 1 {
				die("%s: unexpected return arity in %s", t.pos(r), name)
			}
			e := r.Results[0]
			if id, ok := e.(*ast.Ident); ok && id.Name == "alwaysErrorInstance" {
				return "none", true
			}
			// bytes.NewReader(r.Contents[a:b])
			if c, ok := e.(*ast.CallExpr); ok && len(c.Args) == 1 {
				if se, ok := c.Args[0].(*ast.SliceExpr); ok && se.Low != nil && se.High != nil && se.Max == nil {
					if sel, ok := se.X.(*ast.SelectorExpr); ok && sel.Sel.Name == "Contents" {
						return fmt.Sprintf("some (%s, %s)", t.expr(se.Low), t.expr(se.High)), true
					}
				}
			}
			// &busWriter{r, busAddr, start, end, 0}
			if u, ok := e.(*ast.UnaryExpr); ok && u.Op == token.AND {
				if cl, ok := u.X.(*ast.CompositeLit); ok && len(cl.Elts) == 5 {
					if id, ok := cl.Type.(*ast.Ident); ok && id.Name == "busWriter" {
						if c, ok := t.constOf(cl.Elts[4]); !ok || c != "0" {
							die("%s: busWriter initial offset is not the constant 0", t.pos(r))
						}
						return fmt.Sprintf("some (%s, %s)", t.expr(cl.Elts[2]), t.expr(cl.Elts[3])), true
					}
				}
			}
			die("%s: unrecognised return shape in ROM.%s", t.pos(r), name)
			return "", false
		}
		_, txt := translateFuncOpt(l, p, fd, masks, "Option (Nat × Nat)", special)
		sb.WriteString(txt)
	}
	// busWriter.Write: `if <guard> { err = io.ErrUnexpectedEOF; return }; n = copy(w.r.Contents[lo:hi], p); w.o += uint32(n); return`
	fd := findFunc(p, "busWriter", "Write")
	if fd == nil {
		die("rom.go: busWriter.Write not found")
	}
	if len(fd.Body.List) != 4 {
		die("%s: busWriter.Write has an unrecognised shape (%d statements)", l.fset.Position(fd.Pos()), len(fd.Body.List))
	}
	wt := &ftr{p: p, l: l, masks: masks}
	wt.selMap = func(t *ftr, e ast.Expr) (string, bool) {
		switch x := e.(type) {
		case *ast.SelectorExpr:
			if id, ok := x.X.(*ast.Ident); ok && id.Name == "w" {
				switch x.Sel.Name {
				case "o":
					return "o", true
				case "start":
					return "start", true
				case "end":
					return "end_", true
				}
			}
		case *ast.CallExpr:
			// uint32(len(p))
			if id, ok := x.Fun.(*ast.Ident); ok && id.Name == "uint32" && len(x.Args) == 1 {
				if c, ok := x.Args[0].(*ast.CallExpr); ok {
					if f, ok := c.Fun.(*ast.Ident); ok && f.Name == "len" {
						return "(len % 4294967296)", true
					}
				}
			}
		}
		return "", false
	}
	ifs, ok := fd.Body.List[0].(*ast.IfStmt)
	if !ok || ifs.Else != nil || len(ifs.Body.List) != 2 {
		die("%s: busWriter.Write guard has an unrecognised shape", l.fset.Position(fd.Pos()))
	}
	if as, ok := ifs.Body.List[0].(*ast.AssignStmt); !ok || len(as.Lhs) != 1 || fmt.Sprint(as.Lhs[0]) != "err" {
		die("%s: busWriter.Write guard body must assign err", l.fset.Position(fd.Pos()))
	}
	if _, ok := ifs.Body.List[1].(*ast.ReturnStmt); !ok {
		die("%s: busWriter.Write guard body must return", l.fset.Position(fd.Pos()))
	}
	guard := wt.cond(ifs.Cond)
	as, ok := fd.Body.List[1].(*ast.AssignStmt)
	if !ok || len(as.Rhs) != 1 {
		die("%s: busWriter.Write copy statement not recognised", l.fset.Position(fd.Pos()))
	}
	call, ok := as.Rhs[0].(*ast.CallExpr)
	if !ok || fmt.Sprint(call.Fun) != "copy" || len(call.Args) != 2 {
		die("%s: busWriter.Write copy statement not recognised", l.fset.Position(fd.Pos()))
	}
	se, ok := call.Args[0].(*ast.SliceExpr)
	if !ok || se.Low == nil || se.High == nil {
		die("%s: busWriter.Write copy destination not recognised", l.fset.Position(fd.Pos()))
	}
	lo, hi := wt.expr(se.Low), wt.expr(se.High)
	inc, ok := fd.Body.List[2].(*ast.AssignStmt)
	if !ok || inc.Tok != token.ADD_ASSIGN || fmt.Sprint(inc.Rhs[0]) != "&{uint32 0 [n] 0 0}" && !strings.Contains(fmt.Sprint(inc.Rhs[0]), "uint32") {
		die("%s: busWriter.Write offset update not recognised", l.fset.Position(fd.Pos()))
	}
	src := l.fset.Position(fd.Pos())
	sb.WriteString(fmt.Sprintf("/-- generated from rom.go:%d busWriter.Write: the refusal guard -/\ndef rom_busWriter_guard (o start end_ len : Nat) : Bool :=\n  decide %s\n\n", src.Line, guard))
	sb.WriteString(fmt.Sprintf("/-- generated from rom.go:%d busWriter.Write: destination slice Contents[lo:hi] -/\ndef rom_busWriter_lo (o start end_ : Nat) : Nat :=\n  %s\ndef rom_busWriter_hi (o start end_ : Nat) : Nat :=\n  %s\n\n", src.Line, lo, hi))
	sb.WriteString(maskLemmas(masks, "rom"))
	sb.WriteString("end Gen\n")
	writeIfChanged("RomWin.lean", sb.String())
}
