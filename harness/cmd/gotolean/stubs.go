package main

func genCpuTables(l *loader) {}
func genAsm(l *loader)       {}
func genGlobals(l *loader)   {}
