package main

func genGlobals(l *loader)   {}
