package main

import (
	"fmt"
	"go/ast"
	"go/constant"
	"go/types"
	"strings"
)

// genCpuTables extracts, for both CPU packages, the 256-entry opcode table (opcode, mnemonic, addressing mode,
// size, cycles, routine) and the four cycle-adjust tables into Gen/CpuTables.lean.
func genCpuTables(l *loader) {
	var sb strings.Builder
	sb.WriteString(header)
	sb.WriteString("namespace Gen\n\n/-- one row of an interpreter's opcode table -/\nstructure InsRow where\n  opcode : Nat\n  name : String\n  mode : Nat\n  modeName : String\n  size : Nat\n  cycles : Nat\n  proc : String\n  deriving Repr, DecidableEq, Inhabited\n\n")
	for _, pk := range [][2]string{{"emulator/cpu65c816", "primary"}, {"emulator/cpualt", "alt"}} {
		p, err := l.load(pk[0])
		if err != nil {
			die("%v", err)
		}
		t := &ftr{p: p, l: l}
		// find the [256]instructionType composite literal
		var lit *ast.CompositeLit
		for _, f := range p.files {
			ast.Inspect(f, func(n ast.Node) bool {
				cl, ok := n.(*ast.CompositeLit)
				if !ok {
					return true
				}
				if at, ok := p.info.TypeOf(cl).(*types.Array); ok && at.Len() == 256 {
					if nt, ok := at.Elem().(*types.Named); ok && nt.Obj().Name() == "instructionType" {
						if lit != nil {
							die("%s: more than one opcode table literal", pk[0])
						}
						lit = cl
					}
				}
				return true
			})
		}
		if lit == nil {
			die("%s: opcode table literal not found", pk[0])
		}
		if len(lit.Elts) != 256 {
			die("%s: opcode table has %d rows", pk[0], len(lit.Elts))
		}
		sb.WriteString(fmt.Sprintf("def %s_instructions : Array InsRow := #[\n", pk[1]))
		for i, e := range lit.Elts {
			row, ok := e.(*ast.CompositeLit)
			if !ok || len(row.Elts) != 6 {
				die("%s: opcode table row %d has an unrecognised shape", pk[0], i)
			}
			num := func(e ast.Expr) string {
				tv := p.info.Types[e]
				if tv.Value == nil || tv.Value.Kind() != constant.Int {
					die("%s: non-constant table cell at %s", pk[0], t.pos(e))
				}
				return tv.Value.ExactString()
			}
			name, ok := t.constStr(row.Elts[1])
			if !ok {
				die("%s: mnemonic is not a constant string at %s", pk[0], t.pos(row.Elts[1]))
			}
			modeName := fmt.Sprint(row.Elts[2])
			proc := ""
			switch pe := row.Elts[5].(type) {
			case *ast.Ident:
				proc = pe.Name
			case *ast.SelectorExpr:
				proc = pe.Sel.Name
			default:
				die("%s: routine cell has an unrecognised shape at %s", pk[0], t.pos(row.Elts[5]))
			}
			sep := ","
			if i == 255 {
				sep = ""
			}
			sb.WriteString(fmt.Sprintf("  ⟨%s, %q, %s, %q, %s, %s, %q⟩%s\n", num(row.Elts[0]), name, num(row.Elts[2]), modeName, num(row.Elts[3]), num(row.Elts[4]), proc, sep))
		}
		sb.WriteString("]\n\n")
		// cycle tables
		for _, tn := range []string{"decCycles_flagM", "decCycles_flagX", "incCycles_regDL_not00", "incCycles_PageCross"} {
			obj := p.pkg.Scope().Lookup(tn)
			if obj == nil {
				die("%s: table %s not found", pk[0], tn)
			}
			var vals []string
			for _, f := range p.files {
				for _, d := range f.Decls {
					gd, ok := d.(*ast.GenDecl)
					if !ok {
						continue
					}
					for _, sp := range gd.Specs {
						vs, ok := sp.(*ast.ValueSpec)
						if !ok || len(vs.Names) != 1 || vs.Names[0].Name != tn || len(vs.Values) != 1 {
							continue
						}
						cl, ok := vs.Values[0].(*ast.CompositeLit)
						if !ok {
							die("%s: table %s is not a literal", pk[0], tn)
						}
						for _, e := range cl.Elts {
							tv := p.info.Types[e]
							if tv.Value == nil {
								die("%s: table %s has a non-constant cell", pk[0], tn)
							}
							vals = append(vals, tv.Value.ExactString())
						}
					}
				}
			}
			if len(vals) != 256 {
				die("%s: table %s has %d entries", pk[0], tn, len(vals))
			}
			sb.WriteString(fmt.Sprintf("def %s_%s : Array Nat := #[", pk[1], tn))
			for i, v := range vals {
				if i%16 == 0 {
					sb.WriteString("\n  ")
				}
				sb.WriteString(v)
				if i != 255 {
					sb.WriteString(", ")
				}
			}
			sb.WriteString("]\n\n")
		}
		// the interrupt latch constants consulted by Step's `switch cpu.Interrupt`
		for _, cn := range []string{"interruptNone", "interruptNMI", "interruptIRQ"} {
			obj, ok := p.pkg.Scope().Lookup(cn).(*types.Const)
			if !ok || obj.Val().Kind() != constant.Int {
				die("%s: constant %s not found", pk[0], cn)
			}
			sb.WriteString(fmt.Sprintf("def %s_%s : Nat := %s\n", pk[1], cn, obj.Val().ExactString()))
		}
		sb.WriteString("\n")
	}
	sb.WriteString("end Gen\n")
	writeIfChanged("CpuTables.lean", sb.String())
}
