package main

import (
	"fmt"
	"go/ast"
	"go/token"
	"go/types"
	"sort"
	"strings"
)

// genAsm extracts one row per instruction-emitting method of asm.Emitter (every exported method whose body ends in a
// call of emit1..emit4 / emit2Label / emit3Label) into Gen/AsmMethods.lean, and translates imm16 / imm24.
//
// Recognised method shape (anything else is a loud failure, i.e. a broken tie):
//
//	[ if [!]a.IsM16bit()|a.IsX16bit() { panic(...) } ]        width guard (or a call of a helper method whose body is exactly that)
//	[ a.AssumeREP(p) | a.AssumeSEP(p) ]                         tracker update
//	[ var d [N]byte ; d[i] = <byte expr> ; d[i], d[j](, d[k]) = imm16(p) | imm24(p) | p, q(, r) ]
//	a.emitN(ins, [label,] [argsFormat,] d | [N]byte{...})
func genAsm(l *loader) {
	p, err := l.load("asm")
	if err != nil {
		die("%v", err)
	}
	var sb strings.Builder
	sb.WriteString(header)
	sb.WriteString("import SnesVerif.Base.Bits\nset_option maxRecDepth 10000\nset_option linter.unusedVariables false\nnamespace Gen\n\n")
	masks := map[uint64]bool{}
	for _, fn := range []string{"imm16", "imm24"} {
		fd := findFunc(p, "", fn)
		if fd == nil {
			die("asm/emitter.go: %s not found", fn)
		}
		_, txt := translateFunc(l, p, fd, masks)
		sb.WriteString(txt)
	}
	sb.WriteString(`/-- a byte of an emitted instruction as a function of the method's parameters -/
inductive BExpr
  | const (k : Nat)          -- literal byte
  | p8 (i : Nat)             -- byte(param i)  (uint8 / int8 / Flags parameter)
  | imm16 (i : Nat) (j : Nat)  -- component j of imm16(param i)
  | imm24 (i : Nat) (j : Nat)  -- component j of imm24(param i)
  deriving Repr, DecidableEq

inductive AsmGuard | none | m8 | m16 | x8 | x16
  deriving Repr, DecidableEq
inductive AsmTrack | none | rep (i : Nat) | sep (i : Nat)
  deriving Repr, DecidableEq
inductive AsmKind | plain | label8 | label16
  deriving Repr, DecidableEq

structure AsmMethod where
  name : String
  mnemonic : String          -- the part of the name before the first underscore
  suffix : List String       -- the remaining underscore-separated tokens
  params : List Nat          -- bit width of each parameter (8, 16, 32); a label parameter is 0
  guard : AsmGuard
  track : AsmTrack
  bytes : List BExpr
  kind : AsmKind
  ins : String               -- mnemonic text used in listings
  fmt : String               -- operand format used in listings
  deriving Repr, DecidableEq

`)
	type row struct{ name, text string }
	var rows []row
	for _, f := range p.files {
		for _, d := range f.Decls {
			fd, ok := d.(*ast.FuncDecl)
			if !ok || fd.Recv == nil || !fd.Name.IsExported() || fd.Body == nil {
				continue
			}
			if r := recvName(fd); r != "Emitter" {
				continue
			}
			if txt, ok := asmRow(l, p, fd); ok {
				rows = append(rows, row{fd.Name.Name, txt})
			}
		}
	}
	if len(rows) == 0 {
		die("asm/emitter.go: no instruction methods recognised")
	}
	sort.Slice(rows, func(i, j int) bool { return rows[i].name < rows[j].name })
	sb.WriteString("def asmMethods : List AsmMethod := [\n")
	for i, r := range rows {
		sep := ","
		if i == len(rows)-1 {
			sep = ""
		}
		sb.WriteString("  " + r.text + sep + "\n")
	}
	sb.WriteString("]\n\n")
	sb.WriteString(maskLemmas(masks, "asm"))
	sb.WriteString("end Gen\n")
	writeIfChanged("AsmMethods.lean", sb.String())
}

func recvName(fd *ast.FuncDecl) string {
	if fd.Recv == nil || len(fd.Recv.List) != 1 {
		return ""
	}
	switch rt := fd.Recv.List[0].Type.(type) {
	case *ast.Ident:
		return rt.Name
	case *ast.StarExpr:
		if id, ok := rt.X.(*ast.Ident); ok {
			return id.Name
		}
	}
	return ""
}

var emitFns = map[string]struct {
	n     int
	kind  string
	label bool
	fmt   bool
}{
	"emit1":      {1, "plain", false, false},
	"emit2":      {2, "plain", false, true},
	"emit3":      {3, "plain", false, true},
	"emit4":      {4, "plain", false, true},
	"emit2Label": {2, "label8", true, false},
	"emit3Label": {3, "label16", true, true},
}

// asmRow recognises an instruction method; ok=false means "not an instruction method" (no emitN call at all).
func asmRow(l *loader, p *pkgInfo, fd *ast.FuncDecl) (string, bool) {
	t := &ftr{p: p, l: l}
	name := fd.Name.Name
	stmts := fd.Body.List
	if len(stmts) == 0 {
		return "", false
	}
	last, ok := stmts[len(stmts)-1].(*ast.ExprStmt)
	if !ok {
		return "", false
	}
	call, ok := last.X.(*ast.CallExpr)
	if !ok {
		return "", false
	}
	sel, ok := call.Fun.(*ast.SelectorExpr)
	if !ok {
		return "", false
	}
	ef, ok := emitFns[sel.Sel.Name]
	if !ok {
		return "", false
	}
	bad := func(format string, a ...interface{}) {
		die("%s: method %s: %s (unknown shape)", t.pos(fd), name, fmt.Sprintf(format, a...))
	}
	// parameters
	sig := p.info.Defs[fd.Name].(*types.Func).Type().(*types.Signature)
	pidx := map[string]int{}
	var pw []string
	for i := 0; i < sig.Params().Len(); i++ {
		v := sig.Params().At(i)
		pidx[v.Name()] = i
		switch u := v.Type().Underlying().(type) {
		case *types.Basic:
			switch u.Kind() {
			case types.Uint8, types.Int8:
				pw = append(pw, "8")
			case types.Uint16:
				pw = append(pw, "16")
			case types.Uint32:
				pw = append(pw, "32")
			case types.String:
				pw = append(pw, "0")
			default:
				bad("parameter %s has unsupported type %v", v.Name(), v.Type())
			}
		default:
			bad("parameter %s has unsupported type %v", v.Name(), v.Type())
		}
	}
	guard, track := "AsmGuard.none", "AsmTrack.none"
	bytes := map[int]string{}
	byteOf := func(e ast.Expr) string {
		if c, ok := t.constOf(e); ok {
			return "BExpr.const " + c
		}
		// byte(x) / uint8(x) conversions and plain identifiers
		for {
			if ce, ok := e.(*ast.CallExpr); ok && len(ce.Args) == 1 {
				if id, ok := ce.Fun.(*ast.Ident); ok && (id.Name == "byte" || id.Name == "uint8") {
					e = ce.Args[0]
					continue
				}
			}
			break
		}
		if id, ok := e.(*ast.Ident); ok {
			if i, ok := pidx[id.Name]; ok && pw[i] == "8" {
				return fmt.Sprintf("BExpr.p8 %d", i)
			}
		}
		bad("unsupported byte expression at %s", t.pos(e))
		return ""
	}
	dIndex := func(e ast.Expr) int {
		ix, ok := e.(*ast.IndexExpr)
		if !ok || fmt.Sprint(ix.X) != "d" {
			bad("unsupported assignment target at %s", t.pos(e))
		}
		c, ok := t.constOf(ix.Index)
		if !ok {
			bad("non-constant index at %s", t.pos(e))
		}
		var k int
		fmt.Sscan(c, &k)
		return k
	}
	// guardOf recognises `if [!]a.IsM16bit()|a.IsX16bit() { panic(...) }`
	guardOf := func(x *ast.IfStmt) string {
		cond := x.Cond
		neg := false
		if u, ok := cond.(*ast.UnaryExpr); ok && u.Op == token.NOT {
			neg = true
			cond = u.X
		}
		c, ok := cond.(*ast.CallExpr)
		if !ok || x.Else != nil || x.Init != nil || len(x.Body.List) != 1 {
			bad("unrecognised if statement")
		}
		es, ok := x.Body.List[0].(*ast.ExprStmt)
		if !ok {
			bad("guard body is not a panic")
		}
		pc, ok := es.X.(*ast.CallExpr)
		if !ok || fmt.Sprint(pc.Fun) != "panic" {
			bad("guard body is not a panic")
		}
		s, ok := c.Fun.(*ast.SelectorExpr)
		if !ok || len(c.Args) != 0 {
			bad("unrecognised guard")
		}
		switch {
		case s.Sel.Name == "IsM16bit" && !neg:
			return "AsmGuard.m8" // panics when M is 16-bit: requires 8-bit
		case s.Sel.Name == "IsM16bit" && neg:
			return "AsmGuard.m16"
		case s.Sel.Name == "IsX16bit" && !neg:
			return "AsmGuard.x8"
		case s.Sel.Name == "IsX16bit" && neg:
			return "AsmGuard.x16"
		}
		bad("unrecognised guard %s", s.Sel.Name)
		return ""
	}
	for _, st := range stmts[:len(stmts)-1] {
		switch x := st.(type) {
		case *ast.IfStmt:
			// width guard
			guard = guardOf(x)
		case *ast.ExprStmt:
			c, ok := x.X.(*ast.CallExpr)
			if !ok {
				bad("unrecognised statement")
			}
			s, ok := c.Fun.(*ast.SelectorExpr)
			if !ok {
				bad("unrecognised call")
			}
			if s.Sel.Name != "AssumeREP" && s.Sel.Name != "AssumeSEP" {
				// a guard factored into a helper method of Emitter: its body must be exactly one width guard
				if hd := findFunc(p, "Emitter", s.Sel.Name); hd != nil && hd.Body != nil && len(hd.Body.List) == 1 {
					if hif, ok := hd.Body.List[0].(*ast.IfStmt); ok {
						guard = guardOf(hif)
						continue
					}
				}
				bad("unrecognised call %s", s.Sel.Name)
			}
			if len(c.Args) != 1 {
				bad("unrecognised call")
			}
			id, ok := c.Args[0].(*ast.Ident)
			if !ok {
				bad("tracker argument is not a parameter")
			}
			switch s.Sel.Name {
			case "AssumeREP":
				track = fmt.Sprintf("AsmTrack.rep %d", pidx[id.Name])
			case "AssumeSEP":
				track = fmt.Sprintf("AsmTrack.sep %d", pidx[id.Name])
			default:
				bad("unrecognised call %s", s.Sel.Name)
			}
		case *ast.DeclStmt:
			// var d [N]byte
		case *ast.AssignStmt:
			if len(x.Lhs) == 1 && len(x.Rhs) == 1 {
				bytes[dIndex(x.Lhs[0])] = byteOf(x.Rhs[0])
			} else if len(x.Rhs) == 1 {
				// d[i], d[j](, d[k]) = imm16(p) / imm24(p)
				c, ok := x.Rhs[0].(*ast.CallExpr)
				if !ok || len(c.Args) != 1 {
					bad("unrecognised multi-assignment")
				}
				fn := fmt.Sprint(c.Fun)
				id, ok := c.Args[0].(*ast.Ident)
				if !ok || (fn != "imm16" && fn != "imm24") {
					bad("unrecognised multi-assignment source %s", fn)
				}
				for j, lhs := range x.Lhs {
					bytes[dIndex(lhs)] = fmt.Sprintf("BExpr.%s %d %d", fn, pidx[id.Name], j)
				}
			} else if len(x.Lhs) == len(x.Rhs) {
				for j, lhs := range x.Lhs {
					bytes[dIndex(lhs)] = byteOf(x.Rhs[j])
				}
			} else {
				bad("unrecognised assignment")
			}
		default:
			bad("unrecognised statement %T", st)
		}
	}
	// arguments of the emit call
	args := call.Args
	ins, ok := t.constStr(args[0])
	if !ok {
		bad("mnemonic text is not a constant string")
	}
	fmtS := ""
	ai := 1
	if ef.label {
		if id, ok := args[ai].(*ast.Ident); !ok || pw[pidx[id.Name]] != "0" {
			bad("label argument is not the string parameter")
		}
		ai++
	}
	if ef.fmt {
		s, ok := t.constStr(args[ai])
		if !ok {
			bad("operand format is not a constant string")
		}
		fmtS = s
		ai++
	}
	dArg := args[ai]
	if cl, ok := dArg.(*ast.CompositeLit); ok {
		for j, e := range cl.Elts {
			bytes[j] = byteOf(e)
		}
	} else if fmt.Sprint(dArg) != "d" {
		bad("unrecognised byte array argument")
	}
	var bl []string
	for j := 0; j < ef.n; j++ {
		b, ok := bytes[j]
		if !ok {
			bad("byte %d of the instruction is never assigned", j)
		}
		bl = append(bl, "("+b+")")
	}
	if len(bytes) != ef.n {
		bad("assigns %d bytes but emits %d", len(bytes), ef.n)
	}
	toks := strings.Split(name, "_")
	return fmt.Sprintf("⟨%q, %q, %s, [%s], %s, %s, [%s], AsmKind.%s, %q, %q⟩", name, toks[0], leanStrList(toks[1:]), strings.Join(pw, ", "),
		guard, track, strings.Join(bl, ", "), ef.kind, ins, fmtS), true
}

func (t *ftr) constStr(e ast.Expr) (string, bool) {
	tv, ok := t.p.info.Types[e]
	if !ok || tv.Value == nil {
		return "", false
	}
	s := tv.Value.ExactString()
	if len(s) >= 2 && s[0] == '"' {
		var out string
		if _, err := fmt.Sscanf(s, "%q", &out); err == nil {
			return out, true
		}
	}
	return "", false
}
