// Package prng is the single source of randomness of the harness (SplitMix64).
package prng

type R struct{ s uint64 }

func New(seed uint64) *R { return &R{s: seed*0x9E3779B97F4A7C15 + 0x1234567} }

func (r *R) U64() uint64 {
	r.s += 0x9E3779B97F4A7C15
	z := r.s
	z = (z ^ (z >> 30)) * 0xBF58476D1CE4E5B9
	z = (z ^ (z >> 27)) * 0x94D049BB133111EB
	return z ^ (z >> 31)
}
func (r *R) N(n int) int       { return int(r.U64() % uint64(n)) }
func (r *R) U32() uint32       { return uint32(r.U64()) }
func (r *R) U16() uint16       { return uint16(r.U64()) }
func (r *R) U8() uint8         { return uint8(r.U64()) }
func (r *R) Bool() bool        { return r.U64()&1 == 1 }
func (r *R) Chance(p int) bool { return r.N(100) < p } // p percent
func (r *R) Fork() *R          { return New(r.U64()) }

// Hash is the seeded background-memory function shared with the Lean driver:
// byte at address a of memory image `seed`.
func Hash(seed uint64, a uint32) uint8 {
	z := seed + uint64(a)*0x9E3779B97F4A7C15
	z = (z ^ (z >> 30)) * 0xBF58476D1CE4E5B9
	z = (z ^ (z >> 27)) * 0x94D049BB133111EB
	z = z ^ (z >> 31)
	return uint8(z >> 24)
}
