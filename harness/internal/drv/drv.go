// Package drv talks to the compiled Lean model driver over the line protocol.
package drv

import (
	"bufio"
	"fmt"
	"io"
	"os"
	"os/exec"
)

type Drv struct {
	cmd *exec.Cmd
	in  *bufio.Writer
	inc io.WriteCloser
	out *bufio.Reader
}

func Start(path string) (*Drv, error) {
	cmd := exec.Command(path)
	in, err := cmd.StdinPipe()
	if err != nil {
		return nil, err
	}
	out, err := cmd.StdoutPipe()
	if err != nil {
		return nil, err
	}
	cmd.Stderr = os.Stderr
	if err := cmd.Start(); err != nil {
		return nil, err
	}
	return &Drv{cmd: cmd, in: bufio.NewWriterSize(in, 1<<20), inc: in, out: bufio.NewReaderSize(out, 1<<20)}, nil
}

// Batch sends all request lines and returns all reply lines (pipelined; the writer runs concurrently).
func (d *Drv) Batch(reqs []string) ([]string, error) {
	errc := make(chan error, 1)
	go func() {
		for _, r := range reqs {
			if _, err := d.in.WriteString(r); err != nil {
				errc <- err
				return
			}
			if err := d.in.WriteByte('\n'); err != nil {
				errc <- err
				return
			}
		}
		d.in.WriteByte('\n') // empty line = flush request
		errc <- d.in.Flush()
	}()
	res := make([]string, 0, len(reqs))
	for range reqs {
		l, err := d.out.ReadString('\n')
		if err != nil {
			return res, fmt.Errorf("model driver: %w (after %d replies)", err, len(res))
		}
		res = append(res, l[:len(l)-1])
	}
	if err := <-errc; err != nil {
		return res, err
	}
	return res, nil
}

// Stream pipelines requests produced by gen (until it returns "", false) and hands each reply to sink.
func (d *Drv) Stream(gen func() (string, bool), sink func(i int, req, reply string)) error {
	type item struct{ req string }
	ch := make(chan string, 1<<16)
	errc := make(chan error, 1)
	go func() {
		for {
			r, ok := gen()
			if !ok {
				break
			}
			ch <- r
			if _, err := d.in.WriteString(r); err != nil {
				errc <- err
				close(ch)
				return
			}
			d.in.WriteByte('\n')
			if len(ch) > 1<<15 {
				d.in.WriteByte('\n')
				d.in.Flush()
			}
		}
		close(ch)
		d.in.WriteByte('\n') // empty line = flush request
		errc <- d.in.Flush()
	}()
	i := 0
	for r := range ch {
		l, err := d.out.ReadString('\n')
		if err != nil {
			return fmt.Errorf("model driver: %w (after %d replies)", err, i)
		}
		sink(i, r, l[:len(l)-1])
		i++
	}
	return <-errc
}

func (d *Drv) Close() {
	d.inc.Close()
	d.cmd.Wait()
}
