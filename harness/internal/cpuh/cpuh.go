// Package cpuh drives the two real 65C816 interpreters of /repo over a sparse, seeded 16 MiB memory image.
package cpuh

import (
	"fmt"
	"sort"
	"strings"

	"github.com/alttpo/snes/emulator/bus"
	"github.com/alttpo/snes/emulator/cpu65c816"
	"github.com/alttpo/snes/emulator/cpualt"

	"verifharness/internal/prng"
)

// Mem is a whole-address-space memory: byte at a = overlay[a] if written/preset, else prng.Hash(seed, a).
// It implements memory.Memory for bus.Bus and provides closures for cpualt.Bus; every address it is handed is logged.
type Mem struct {
	Seed     uint64
	Ovl      map[uint32]byte
	Writes   []uint32 // addresses written, in order
	MaxA     uint32   // largest address ever handed to the backend (reads and writes)
	Reads    int
	LogReads bool
	ReadLog  []uint32 // addresses read, in order (only when LogReads)
}

func NewMem(seed uint64) *Mem { return &Mem{Seed: seed, Ovl: map[uint32]byte{}} }

func (m *Mem) Get(a uint32) byte {
	if v, ok := m.Ovl[a]; ok {
		return v
	}
	return prng.Hash(m.Seed, a)
}
func (m *Mem) Read(a uint32) byte {
	if a > m.MaxA {
		m.MaxA = a
	}
	m.Reads++
	if m.LogReads {
		m.ReadLog = append(m.ReadLog, a)
	}
	return m.Get(a)
}
func (m *Mem) Write(a uint32, v byte) {
	if a > m.MaxA {
		m.MaxA = a
	}
	m.Ovl[a] = v
	m.Writes = append(m.Writes, a)
}
func (m *Mem) Shutdown()          {}
func (m *Mem) Size() uint32       { return 1 << 24 }
func (m *Mem) Clear()             {}
func (m *Mem) Dump(uint32) []byte { return nil }

func (m *Mem) Clone() *Mem {
	c := NewMem(m.Seed)
	for k, v := range m.Ovl {
		c.Ovl[k] = v
	}
	return c
}

// Regs is the architectural + bookkeeping state shared by both interpreters (exported fields of cpu.CPU).
type Regs struct {
	PC, SP, RA, RX, RY, RD       uint16
	RAh, RAl, RXl, RYl, RDBR, RK byte
	N, V, M, X, D, I, Z, C, B, E byte
	Cycles                       byte
	AllCycles                    uint64
	Stopped                      bool
	WDM                          byte
	PPC                          uint16
	PRK                          byte
}

// Canon renders the state in the protocol's canonical order (hex).
func (r Regs) Canon() string {
	st := 0
	if r.Stopped {
		st = 1
	}
	return fmt.Sprintf("%x %x %x %x %x %x %x %x %x %x %x %x %x%x%x%x%x%x%x%x %x %x %x %x %x %x",
		r.PC, r.SP, r.RA, r.RX, r.RY, r.RD, r.RAh, r.RAl, r.RXl, r.RYl, r.RDBR, r.RK,
		r.N, r.V, r.M, r.X, r.D, r.I, r.Z, r.C, r.E, r.B, r.Cycles, r.AllCycles, st, r.WDM)
}

// ---- primary ----

var sharedBus *bus.Bus

// delegating backend: attached once over the whole space, forwards to the memory of the current case
type delegate struct{ cur *Mem }

func (d *delegate) Read(a uint32) byte     { return d.cur.Read(a) }
func (d *delegate) Write(a uint32, v byte) { d.cur.Write(a, v) }
func (d *delegate) Shutdown()              {}
func (d *delegate) Size() uint32           { return 1 << 24 }
func (d *delegate) Clear()                 {}
func (d *delegate) Dump(uint32) []byte     { return nil }

var primaryDelegate = &delegate{}
var altDelegate = &delegate{}

// Rebind routes the shared bus back to the memory of `p` (after another Primary was created in between).
func Rebind(p *Primary) { primaryDelegate.cur = p.Mem }

type Primary struct {
	CPU *cpu65c816.CPU
	Mem *Mem
}

// NewPrimary routes the whole 24-bit space of one shared bus.Bus to `mem`.
func NewPrimary(mem *Mem) *Primary {
	if sharedBus == nil {
		sharedBus, _ = bus.New()
		if err := sharedBus.Attach(primaryDelegate, "all", 0, 0xFFFFFF); err != nil {
			panic(err)
		}
	}
	primaryDelegate.cur = mem
	c, _ := cpu65c816.New(sharedBus)
	// the exported constructors are all exercised: every 4th CPU is made by InitFrom out of a CPU that has already
	// executed an instruction (on a scratch memory)
	newPrimaryCount++
	if newPrimaryCount%4 == 0 {
		primaryDelegate.cur = NewMem(7)
		donor, _ := cpu65c816.New(sharedBus)
		donor.M, donor.X = 1, 1
		func() {
			defer func() { recover() }()
			donor.Step()
		}()
		c = &cpu65c816.CPU{}
		c.InitFrom(donor, sharedBus)
		primaryDelegate.cur = mem
	}
	return &Primary{c, mem}
}

var newPrimaryCount, newAltCount int

func (p *Primary) Set(r Regs) {
	c := p.CPU
	c.PC, c.SP, c.RA, c.RX, c.RY, c.RD = r.PC, r.SP, r.RA, r.RX, r.RY, r.RD
	c.RAh, c.RAl, c.RXl, c.RYl, c.RDBR, c.RK = r.RAh, r.RAl, r.RXl, r.RYl, r.RDBR, r.RK
	c.N, c.V, c.M, c.X, c.D, c.I, c.Z, c.C, c.B, c.E = r.N, r.V, r.M, r.X, r.D, r.I, r.Z, r.C, r.B, r.E
	c.Cycles, c.AllCycles, c.Stopped, c.WDM, c.PPC, c.PRK = r.Cycles, r.AllCycles, r.Stopped, r.WDM, r.PPC, r.PRK
	c.Interrupt = 1 // interruptNone
}

func (p *Primary) Get() Regs {
	c := p.CPU
	return Regs{c.PC, c.SP, c.RA, c.RX, c.RY, c.RD, c.RAh, c.RAl, c.RXl, c.RYl, c.RDBR, c.RK,
		c.N, c.V, c.M, c.X, c.D, c.I, c.Z, c.C, c.B, c.E, c.Cycles, c.AllCycles, c.Stopped, c.WDM, c.PPC, c.PRK}
}

// Step executes one instruction; a Go panic is recovered and reported.
func (p *Primary) Step() (cycles int, stopped bool, panicked string) {
	defer func() {
		if r := recover(); r != nil {
			panicked = fmt.Sprint(r)
		}
	}()
	cycles, stopped = p.CPU.Step()
	return
}

// ---- alternative ----

var sharedAlt, sharedAltCopy *cpualt.CPU

type Alt struct {
	CPU *cpualt.CPU
	Mem *Mem
}

func NewAlt(mem *Mem) *Alt {
	if sharedAlt == nil {
		sharedAlt = &cpualt.CPU{}
		sharedAlt.Init()
		sharedAlt.Bus.AttachReader(0, 0xFFFFFF, func(a uint32) uint8 { return altDelegate.cur.Read(a) })
		sharedAlt.Bus.AttachWriter(0, 0xFFFFFF, func(a uint32, v uint8) { altDelegate.cur.Write(a, v) })
	}
	altDelegate.cur = mem
	c := sharedAlt
	// every 3rd case runs on a CPU made by InitFrom out of the shared CPU, which has executed before (the copy shares the
	// bus closures, which read through altDelegate)
	newAltCount++
	if newAltCount%3 == 0 && newAltCount > 3 {
		if sharedAltCopy == nil || newAltCount%300 == 0 {
			sharedAltCopy = &cpualt.CPU{}
			sharedAltCopy.InitFrom(sharedAlt)
		}
		c = sharedAltCopy
	}
	c.OnWDM, c.OnPC = nil, nil
	return &Alt{c, mem}
}

func (p *Alt) Set(r Regs) {
	c := p.CPU
	c.PC, c.SP, c.RA, c.RX, c.RY, c.RD = r.PC, r.SP, r.RA, r.RX, r.RY, r.RD
	c.RAh, c.RAl, c.RXl, c.RYl, c.RDBR, c.RK = r.RAh, r.RAl, r.RXl, r.RYl, r.RDBR, r.RK
	c.N, c.V, c.M, c.X, c.D, c.I, c.Z, c.C, c.B, c.E = r.N, r.V, r.M, r.X, r.D, r.I, r.Z, r.C, r.B, r.E
	c.Cycles, c.AllCycles, c.Stopped, c.WDM, c.PPC, c.PRK = r.Cycles, r.AllCycles, r.Stopped, r.WDM, r.PPC, r.PRK
	c.Interrupt = 1
}

func (p *Alt) Get() Regs {
	c := p.CPU
	return Regs{c.PC, c.SP, c.RA, c.RX, c.RY, c.RD, c.RAh, c.RAl, c.RXl, c.RYl, c.RDBR, c.RK,
		c.N, c.V, c.M, c.X, c.D, c.I, c.Z, c.C, c.B, c.E, c.Cycles, c.AllCycles, c.Stopped, c.WDM, c.PPC, c.PRK}
}

func (p *Alt) Step() (cycles int, stopped bool, panicked string) {
	defer func() {
		if r := recover(); r != nil {
			panicked = fmt.Sprint(r)
		}
	}()
	cycles, stopped = p.CPU.Step()
	return
}

// WritesCanon renders the final values of all written addresses, sorted (addr=byte).
func (m *Mem) WritesCanon() string {
	seen := map[uint32]bool{}
	var as []uint32
	for _, a := range m.Writes {
		if !seen[a] {
			seen[a] = true
			as = append(as, a)
		}
	}
	sort.Slice(as, func(i, j int) bool { return as[i] < as[j] })
	var sb strings.Builder
	for i, a := range as {
		if i > 0 {
			sb.WriteByte(',')
		}
		fmt.Fprintf(&sb, "%x=%x", a, m.Ovl[a])
	}
	return sb.String()
}
