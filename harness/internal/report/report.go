// Package report is the JSON result every vh sub-command prints on stdout.
package report

import (
	"encoding/json"
	"fmt"
	"os"
	"sort"
)

type Finding struct {
	Property string      `json:"property"`         // Cnn
	Kind     string      `json:"kind"`             // "violation" (real code breaks the property's oracle) | "disagreement" (model != code)
	Clause   string      `json:"clause"`           // which theorem / correspondence / oracle clause
	Input    interface{} `json:"input"`            // the replayable case
	Expected string      `json:"expected,omitempty"`
	Actual   string      `json:"actual,omitempty"`
	Detail   string      `json:"detail,omitempty"`
}

type Report struct {
	Component    string                 `json:"component"`
	Tier         string                 `json:"tier"`
	Seed         uint64                 `json:"seed"`
	Evaluations  int64                  `json:"evaluations"`
	Distinct     int64                  `json:"distinct_nontrivial"`
	Rule         string                 `json:"rule"`
	Exhaustive   bool                   `json:"exhaustive"`
	Samples      []interface{}          `json:"samples"`
	Distribution map[string]int64       `json:"distribution"`
	Findings     []Finding              `json:"findings"`
	Extra        map[string]interface{} `json:"extra,omitempty"`
}

func New(component, tier string, seed uint64) *Report {
	return &Report{Component: component, Tier: tier, Seed: seed, Distribution: map[string]int64{}, Extra: map[string]interface{}{}, Findings: []Finding{}, Samples: []interface{}{}}
}

func (r *Report) Count(key string) { r.Distribution[key]++ }
func (r *Report) CountN(key string, n int64) { r.Distribution[key] += n }

func (r *Report) Sample(s interface{}) {
	if len(r.Samples) < 8 {
		r.Samples = append(r.Samples, s)
	}
}

// Add records a finding; at most 20 per (property, clause) are kept.
func (r *Report) Add(f Finding) {
	n := 0
	for _, g := range r.Findings {
		if g.Property == f.Property && g.Clause == f.Clause {
			n++
		}
	}
	if n < 20 {
		r.Findings = append(r.Findings, f)
	}
}

func (r *Report) Emit() {
	sort.SliceStable(r.Findings, func(i, j int) bool { return r.Findings[i].Kind > r.Findings[j].Kind })
	b, err := json.Marshal(r)
	if err != nil {
		fmt.Fprintln(os.Stderr, "report:", err)
		os.Exit(2)
	}
	os.Stdout.Write(b)
	os.Stdout.Write([]byte("\n"))
}
